import sys; sys.path.insert(0,'/repo')
import numpy as np, pandas as pd, warnings
warnings.simplefilter('ignore')
from score_analysis import ConfusionMatrix
rng = np.random.default_rng(5)
bad={}; n=0
def rec(k,i): bad.setdefault(k,[]).append(i)
for trial in range(2000):
    K = int(rng.integers(2,6))
    kind = rng.integers(0,3)
    classes = list(range(K)) if kind==0 else (list('abcdefg'[:K]) if kind==1 else [10*i-7 for i in range(K)])
    m = int(rng.integers(0,40))
    lab = rng.choice(classes,m) if m else np.array([],dtype=np.asarray(classes).dtype); pred = rng.choice(classes,m) if m else lab.copy()
    wk = rng.integers(0,3)
    w = None if wk==0 else (rng.integers(1,5,m) if wk==1 else rng.uniform(0.1,3,m))
    order = list(rng.permutation(classes)) if kind!=1 else [str(c) for c in rng.permutation(classes)]
    try: cm = ConfusionMatrix(labels=lab, predictions=pred, weights=w, classes=order)
    except Exception as e: rec(('exc',type(e).__name__),(str(e),)); continue
    n+=1
    ref = np.zeros((K,K), dtype=float)
    for i,(l,p) in enumerate(zip(lab,pred)): ref[order.index(l),order.index(p)] += 1 if w is None else w[i]
    if not np.allclose(cm.matrix, ref): rec(('build',),())
    if list(cm.classes)!=order: rec(('classes',),())
    # equivalent constructions
    d = {r:{c:ref[i,j] for j,c in enumerate(order)} for i,r in enumerate(order)}
    perm = list(rng.permutation(order)) if kind!=1 else [str(c) for c in rng.permutation(order)]
    cm2 = ConfusionMatrix(matrix=d, classes=perm)
    df = pd.DataFrame(ref, index=order, columns=order)
    cm3 = ConfusionMatrix(matrix=df.loc[:, list(rng.permutation(order)) if kind!=1 else [str(c) for c in rng.permutation(order)]], classes=perm)
    cm4 = ConfusionMatrix(matrix=ref.tolist(), classes=order)
    pi = [order.index(c) for c in perm]
    refp = ref[np.ix_(pi,pi)]
    if not (np.allclose(cm2.matrix,refp) and np.allclose(cm3.matrix,refp) and np.allclose(cm4.matrix,ref)): rec(('equiv',),())
    # vectorised one-vs-all
    lead = tuple(rng.integers(0,3,int(rng.integers(0,3))))
    M = rng.integers(0,9,(*lead,K,K)) if rng.random()<0.5 else rng.uniform(0,5,(*lead,K,K))
    c = ConfusionMatrix(matrix=M, classes=order)
    ova = c.one_vs_all().matrix
    if ova.shape!=(*lead,K,2,2): rec(('ova_shape',),())
    tot = M.sum(axis=(-1,-2))
    if not np.allclose(ova.sum(axis=(-1,-2)), tot[...,None]): rec(('ova_cons',),())
    for j in range(K):
        if not (np.allclose(ova[...,j,0,0],M[...,j,j]) and np.allclose(ova[...,j,0,:].sum(-1),M[...,j,:].sum(-1)) and np.allclose(ova[...,j,:,0].sum(-1),M[...,:,j].sum(-1))): rec(('ova_cells',),())
    for nm in ['tpr','fpr','ppv','tp','p','top','class_accuracy','tpr_ci']:
        v = getattr(c,nm)(); dct = getattr(c,nm)(as_dict=True)
        exp_shape = (*lead,K) + ((2,) if nm.endswith('_ci') else ())
        if np.asarray(v).shape!=exp_shape: rec(('pc_shape',nm),(np.asarray(v).shape,exp_shape))
        ax = -2 if nm.endswith('_ci') else -1
        for j,cl in enumerate(order):
            if not np.array_equal(np.take(v,j,axis=ax), dct[cl], equal_nan=True): rec(('asdict',nm),())
        cp = ConfusionMatrix(matrix=M[...,pi,:][...,:,pi], classes=perm)
        vp = getattr(cp,nm)()
        if not np.allclose(np.take(v,pi,axis=ax), vp, equal_nan=True): rec(('perm',nm),())
    acc = c.accuracy(); tr = np.trace(M,axis1=-2,axis2=-1)
    if not np.allclose(np.asarray(acc), np.where(tot!=0, tr/np.where(tot==0,1,tot), np.nan), equal_nan=True): rec(('acc',),())
print(n,len(bad))
for k,v in sorted(bad.items(), key=str): print(k,len(v),str(min(v,key=lambda x:len(str(x))))[:300])
