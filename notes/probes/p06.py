from gen import *
rng = np.random.default_rng(6)
bad={}; n=0
def rec(key,info): bad.setdefault(key,[]).append(info)
for trial in range(4000):
    npos = int(rng.integers(1,25)); nneg=int(rng.integers(1,25))
    kind = rng.integers(0,4)
    allv = rng.permutation(npos+nneg).astype(float) if kind==0 else rng.normal(0,1,npos+nneg)
    if kind==2: # perfectly separated
        allv = np.sort(allv); 
    if kind==3: allv = np.sort(allv)[::-1].copy()
    pos, neg = allv[:npos], allv[npos:]
    ep,en = easy(rng)
    for sc,ec in CFG:
        s = Scores(pos,neg,nb_easy_pos=ep,nb_easy_neg=en,score_class=sc,equal_class=ec)
        try:
            t,e = s.eer()
        except Exception as ex:
            rec((sc,ec,'exc',type(ex).__name__),(pos.tolist(),neg.tolist(),ep,en,str(ex))); continue
        n+=1
        fpr,fnr = s.fpr(t), s.fnr(t)
        if not (0<=e<=1): rec((sc,ec,'range'),(pos.tolist(),neg.tolist(),ep,en,t,e))
        tolp = 1/s.nb_all_pos+1e-9; toln = 1/s.nb_all_neg+1e-9
        if abs(fpr-e)>toln: rec((sc,ec,'fpr',kind,ep>0,en>0),(pos.tolist(),neg.tolist(),ep,en,t,e,fpr,fnr))
        if abs(fnr-e)>tolp: rec((sc,ec,'fnr',kind,ep>0,en>0),(pos.tolist(),neg.tolist(),ep,en,t,e,fpr,fnr))
        if e > min(s.hard_pos_ratio,s.hard_neg_ratio)+1e-12: rec((sc,ec,'cap'),(pos.tolist(),neg.tolist(),ep,en,t,e))
        if e==0 and (fpr!=0 or fnr!=0): rec((sc,ec,'zero'),(pos.tolist(),neg.tolist(),ep,en,t,e,fpr,fnr))
print(n,len(bad))
for k,v in sorted(bad.items(), key=str): print(k,len(v),str(min(v,key=lambda x:len(str(x))))[:500])
