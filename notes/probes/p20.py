import sys; sys.path.insert(0,'/repo')
import numpy as np, warnings, math
warnings.simplefilter('ignore')
from score_analysis.experimental import NormalDataset, BernoulliDataset, CorrelatedBernoullilDataset
rng = np.random.default_rng(20)
bad={}; n=0
def rec(k,i): bad.setdefault(k,[]).append(i)
for trial in range(5000):
    mu_p, mu_n = rng.normal(0,3,2); sp, sn = rng.uniform(0.1,5,2)
    sc = str(rng.choice(['pos','neg']))
    ds = NormalDataset(mu_pos=mu_p, mu_neg=mu_n, sigma_pos=sp, sigma_neg=sn, score_class=sc)
    r = rng.uniform(1e-6,1-1e-6,5)
    t = ds.threshold_at_fnr(r); 
    if not np.allclose(ds.fnr(t), r, rtol=1e-9, atol=1e-12): rec(('fnr_inv',),(mu_p,sp,r.tolist(),ds.fnr(t).tolist()))
    t = ds.threshold_at_fpr(r)
    if not np.allclose(ds.fpr(t), r, rtol=1e-9, atol=1e-12): rec(('fpr_inv',),(mu_n,sn,r.tolist(),ds.fpr(t).tolist()))
    th = rng.normal(0,4,5)
    # threshold -> rate -> threshold
    f = ds.fnr(th); ok = (f>1e-9)&(f<1-1e-9)
    if not np.allclose(ds.threshold_at_fnr(f)[ok], th[ok], rtol=1e-6, atol=1e-6): rec(('thr_inv',),())
    rc = ds.roc(fnr=r)
    if not (np.allclose(rc.fnr, ds.fnr(rc.thresholds)) and np.allclose(rc.fpr, ds.fpr(rc.thresholds)) and np.allclose(rc.fnr,r,rtol=1e-9)): rec(('roc',),())
    rc = ds.roc(fpr=r)
    if not (np.allclose(rc.fnr, ds.fnr(rc.thresholds)) and np.allclose(rc.fpr, ds.fpr(rc.thresholds)) and np.allclose(rc.fpr,r,rtol=1e-9)): rec(('roc2',),())
    # from_metrics
    fnr, fpr = rng.choice([0.01,0.05,0.1,0.3,0.29,0.57,rng.uniform(0.001,0.9)],2)
    fs, fps = int(rng.integers(1,60)), int(rng.integers(1,60))
    sp2,sn2 = rng.uniform(0.2,3,2)
    d2 = NormalDataset.from_metrics(fnr,fpr,fs,fps,sigma_pos=sp2,sigma_neg=sn2)
    if not (math.isclose(d2.fnr(0.0),fnr,rel_tol=1e-9) and math.isclose(d2.fpr(0.0),fpr,rel_tol=1e-9)): rec(('fm_rates',),(fnr,fpr,d2.fnr(0.0),d2.fpr(0.0)))
    nbp = d2.n*d2.p_pos
    if abs(nbp-round(nbp))>1e-6: rec(('fm_int',),(nbp,))
    nbp=round(nbp); nbn=d2.n-nbp
    if not (fs - fnr*(1+1e-9) < nbp*fnr <= fs*(1+1e-12)): rec(('fm_np',),(fnr,fs,nbp))
    if not (fps - fpr*(1+1e-9) < nbn*fpr <= fps*(1+1e-12)): rec(('fm_nn',),(fpr,fps,nbn))
    smp = d2.sample(rng=np.random.default_rng(int(rng.integers(1e9))))
    if len(smp.pos)+len(smp.neg)!=d2.n or smp.score_class.value!='pos': rec(('sample',),())
    smp = ds.sample(n=37, rng=np.random.default_rng(1))
    if len(smp.pos)+len(smp.neg)!=37 or smp.score_class.value!=sc: rec(('sample2',),())
    # Bernoulli
    p = float(rng.choice([0,1,0.29,0.57,0.1,rng.uniform()])); nn=int(rng.integers(1,300))
    d = BernoulliDataset(p=p).sample(nn, random=False, rng=np.random.default_rng(2))
    k = int(d.sum())
    if d.shape!=(nn,) or not set(np.unique(d))<= {0,1}: rec(('bern_shape',),())
    if not (k <= nn*p*(1+1e-12)+1e-9 and k > nn*p - 1 - 1e-9): rec(('bern',),(p,nn,k))
    # Correlated
    p1,p2 = rng.uniform(0.02,0.98,2)
    c = (1-p1)*(1-p2); sq = math.sqrt(p1*p2*c)
    # feasible rho range: all four >=0
    # a = c + rho*sq ; need a>=0, 1-p2-a>=0, 1-p1-a>=0, p1+p2+a-1>=0
    lo = max(-c, 1-p1-p2-c)/sq; hi = min(1-p2-c, 1-p1-c)/sq
    for rho,valid in [(rng.uniform(lo+1e-6,hi-1e-6),True),(hi+rng.uniform(1e-3,0.5),False),(lo-rng.uniform(1e-3,0.5),False)]:
        dd = CorrelatedBernoullilDataset(p1=p1,p2=p2,rho=rho)
        try:
            x = dd.sample(nn, random=False, rng=np.random.default_rng(3))
            if not valid: rec(('corr_should_raise',),(p1,p2,rho,lo,hi))
            else:
                if x.shape!=(2,nn) or not set(np.unique(x))<={0,1}: rec(('corr_shape',),())
                if abs(x[0].sum()-nn*p1)>3 or abs(x[1].sum()-nn*p2)>3: rec(('corr_marg',),(p1,p2,rho,nn,x[0].sum(),x[1].sum()))
            x = dd.sample(nn, random=True, rng=np.random.default_rng(3))
        except ValueError as e:
            if valid: rec(('corr_raise_valid',),(p1,p2,rho,str(e)))
    n+=1
print(n,len(bad))
for k,v in sorted(bad.items(), key=str): print(k,len(v),str(min(v,key=lambda x:len(str(x))))[:600])
