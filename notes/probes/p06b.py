from gen import *
rng = np.random.default_rng(7)
bad={}; n=0; nz=0
def rec(key,info): bad.setdefault(key,[]).append(info)
for trial in range(6000):
    pos,neg = gen_scores(rng,1,1,maxn=12)
    if rng.random()<0.5:
        # separated with touching boundary
        a = np.sort(np.concatenate([pos,neg]).astype(float)); k=int(rng.integers(1,len(a))) if len(a)>1 else 1
        if len(a)>1:
            if rng.random()<0.5: neg,pos = a[:k],a[k:]
            else: pos,neg = a[:k],a[k:]
    ep,en = easy(rng)
    for sc,ec in CFG:
        s = Scores(pos,neg,nb_easy_pos=ep,nb_easy_neg=en,score_class=sc,equal_class=ec)
        try:
            t,e = s.eer()
        except Exception as ex:
            rec((sc,ec,'exc',type(ex).__name__),(np.asarray(pos).tolist(),np.asarray(neg).tolist(),ep,en,str(ex))); continue
        n+=1
        fpr,fnr = s.fpr(t), s.fnr(t)
        if e==0:
            nz+=1
            if (fpr!=0 or fnr!=0): rec((sc,ec,'zero'),(np.asarray(pos).tolist(),np.asarray(neg).tolist(),ep,en,t,e,fpr,fnr))
        if not (0<=e<=1): rec((sc,ec,'range'),(t,e))
print(n,nz,len(bad))
for k,v in sorted(bad.items(), key=str): print(k,len(v),str(min(v,key=lambda x:len(str(x))))[:500])
