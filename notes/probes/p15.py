from gen import *
from score_analysis import roc
rng = np.random.default_rng(15)
bad={}; n=0
def rec(k,i): bad.setdefault(k,[]).append(i)
XA = ["fnr","fpr","tnr","tpr","far","frr","tar","trr"]
for trial in range(1500):
    pos,neg = gen_scores(rng,1,1,maxn=20); ep,en=easy(rng)
    for sc,ec in CFG:
        s = Scores(pos,neg,nb_easy_pos=ep,nb_easy_neg=en,score_class=sc,equal_class=ec)
        xa = str(rng.choice(XA))
        kw={}
        sup_t = sup_fnr = sup_fpr = None
        if rng.random()<0.4: sup_t = rng.normal(0,2,int(rng.integers(1,5))); kw['thresholds']=sup_t
        if rng.random()<0.4: sup_fnr = rng.uniform(0,1,int(rng.integers(1,5))); kw['fnr']=sup_fnr
        if rng.random()<0.4: sup_fpr = rng.uniform(0,1,int(rng.integers(1,5))); kw['fpr']=sup_fpr
        nbp = rng.choice([None,1,2,3,10,11,100]); nbp = None if nbp is None else int(nbp)
        try:
            r = roc(s, nb_points=nbp, x_axis=xa, **kw)
        except Exception as e:
            rec(('exc',type(e).__name__),(str(e),kw,nbp)); continue
        n+=1
        if not (len(r.fnr)==len(r.fpr)==len(r.thresholds)): rec(('len',),())
        if not (np.array_equal(r.fnr,s.fnr(r.thresholds)) and np.array_equal(r.fpr,s.fpr(r.thresholds))): rec(('rates',),())
        x = getattr(r,xa)
        if np.any(np.diff(x)< -1e-15): rec(('mono',xa,sc),(np.asarray(pos).tolist(),np.asarray(neg).tolist(),ep,en,kw,nbp,x.tolist()))
        if sup_t is not None and not set(sup_t.tolist())<=set(r.thresholds.tolist()): rec(('has_t',),())
        if sup_fnr is not None and not set(np.atleast_1d(s.threshold_at_fnr(sup_fnr)).tolist())<=set(r.thresholds.tolist()): rec(('has_fnr',),())
        if sup_fpr is not None and not set(np.atleast_1d(s.threshold_at_fpr(sup_fpr)).tolist())<=set(r.thresholds.tolist()): rec(('has_fpr',),())
        if not kw:
            exp = nbp if nbp is not None else len(s.pos)+len(s.neg)
            if len(r.thresholds)!=exp: rec(('npts',),(nbp,len(r.thresholds),exp))
        if not (np.array_equal(r.tpr,1-r.fnr) and np.array_equal(r.tnr,1-r.fpr) and np.array_equal(r.far,r.fpr) and np.array_equal(r.frr,r.fnr) and np.array_equal(r.tar,r.tpr) and np.array_equal(r.trr,r.tnr)): rec(('views',),())
print(n,len(bad))
for k,v in sorted(bad.items(), key=str): print(k,len(v),str(min(v,key=lambda x:len(str(x))))[:600])
