from gen import *
from score_analysis import BootstrapConfig, GroupScores
np.random.seed(0)
s = Scores([1.,2.],[3.,4.])
cfg = BootstrapConfig(sampling_method='single_pass')
c=0
for i in range(2000):
    b = s.bootstrap_sample(cfg)
    if len(b.pos)==0 or len(b.neg)==0: c+=1
print('single_pass empty class samples:',c,'/2000')
# group lacking a class under by_group
g = GroupScores(pos=[1.,2.,3.], neg=[0.5,1.5], pos_groups=['a','a','b'], neg_groups=['a','a'])
for strat in [None,'by_label','by_group']:
    for meth in ['replacement','single_pass']:
        try:
            b = g.bootstrap_sample(BootstrapConfig(sampling_method=meth, stratified_sampling=strat))
            print(strat,meth,'ok',b.pos,b.pos_groups,b.neg,b.neg_groups)
        except Exception as e: print(strat,meth,type(e).__name__,e)
# empty class replacement
s2 = Scores([1.,2.],[])
for meth in ['replacement','single_pass','dynamic']:
    try:
        b = s2.bootstrap_sample(BootstrapConfig(sampling_method=meth)); print(meth,b.pos,b.neg)
    except Exception as e: print(meth,type(e).__name__,e)
