import sys; sys.path.insert(0,'/repo')
import numpy as np, warnings, itertools
warnings.simplefilter('ignore')
from score_analysis import Scores
CFG = list(itertools.product(['pos','neg'],['pos','neg']))
def gen_scores(rng, min_pos=0, min_neg=0, maxn=30, ties=None):
    npos = int(rng.integers(min_pos, maxn)); nneg = int(rng.integers(min_neg, maxn))
    kind = rng.integers(0,5) if ties is None else (1 if ties else 0)
    if kind==0:
        pos = rng.normal(0.5,1,npos); neg = rng.normal(-0.5,1,nneg)
    elif kind==1:
        pos = rng.integers(0,6,npos).astype(float); neg = rng.integers(0,6,nneg).astype(float)
    elif kind==2:
        pos = rng.integers(-3,8,npos); neg = rng.integers(-3,8,nneg)  # int dtype
    elif kind==3:
        pos = rng.uniform(0,1,npos); neg = rng.uniform(0,1,nneg)
    else:
        base = rng.normal(0,1,5)
        pos = rng.choice(base,npos); neg = rng.choice(base,nneg)
    return pos, neg
def easy(rng):
    return int(rng.choice([0,0,0,1,2,3,7,50,1000])), int(rng.choice([0,0,0,1,2,5,9,100,999]))
