from gen import *
rng = np.random.default_rng(11)
bad={}; n=0; nthr=0
def rec(key,info): bad.setdefault(key,[]).append(info)
metrics = ['tpr','fnr','tnr','fpr','topr','tonr']
def close(a,b,span):
    return abs(a-b) <= 8*np.spacing(max(abs(a),abs(b))) + 1e-9*span
for trial in range(2000):
    pos,neg = gen_scores(rng,1,1,maxn=20); pos=np.asarray(pos,float); neg=np.asarray(neg,float)
    ep,en = easy(rng); ep=min(ep,60); en=min(en,60)
    allv=np.concatenate([pos,neg]); lo_,hi_=allv.min(),allv.max(); span=max(1.0,hi_-lo_,abs(lo_),abs(hi_))
    for sc,ec in CFG:
        s = Scores(pos,neg,nb_easy_pos=ep,nb_easy_neg=en,score_class=sc,equal_class=ec)
        # pos side: high if sc=pos else low
        d = rng.uniform(0.5,3)
        hi_ext = hi_+d+np.arange(max(ep,en,1))*0.37; lo_ext = lo_-d-np.arange(max(ep,en,1))*0.41
        if sc=='pos': pe=hi_ext[:ep]; ne=lo_ext[:en]
        else: pe=lo_ext[:ep]; ne=hi_ext[:en]
        mt = Scores(np.concatenate([pos,pe]),np.concatenate([neg,ne]),score_class=sc,equal_class=ec)
        n+=1
        inner_lo = lo_-d*0.99; inner_hi = hi_+d*0.99
        ths = np.concatenate([rng.uniform(inner_lo,inner_hi,6), rng.choice(allv,4), np.nextafter(rng.choice(allv,2),np.inf),[inner_lo,inner_hi]])
        if not np.array_equal(s.cm(ths).matrix, mt.cm(ths).matrix): rec((sc,ec,'cm'),(pos.tolist(),neg.tolist(),ep,en))
        if abs(s.auc()-mt.auc())>1e-9: rec((sc,ec,'auc'),(pos.tolist(),neg.tolist(),ep,en,s.auc(),mt.auc()))
        l,u = sorted(rng.uniform(0,1,2))
        if abs(s.auc(l,u)-mt.auc(l,u))>1e-9: rec((sc,ec,'pauc',ep>0,en>0),(pos.tolist(),neg.tolist(),ep,en,l,u,s.auc(l,u),mt.auc(l,u)))
        for m in metrics:
            rel = {'tpr':pos,'fnr':pos,'tnr':neg,'fpr':neg}.get(m,allv)
            rs = np.concatenate([rng.uniform(0,1,6), rng.integers(0,50,3)/50])
            tm = getattr(mt,'threshold_at_'+m)(rs); te = getattr(s,'threshold_at_'+m)(rs)
            for i in range(len(rs)):
                if rel.min() <= tm[i] <= rel.max():
                    nthr+=1
                    if not close(tm[i],te[i],span): rec((sc,ec,'thr',m,ep>0,en>0),(pos.tolist(),neg.tolist(),ep,en,rs[i],tm[i],te[i]))
print(n,nthr,len(bad))
for k,v in sorted(bad.items(), key=str): print(k,len(v),str(min(v,key=lambda x:len(str(x))))[:700])
