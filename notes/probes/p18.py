import sys; sys.path.insert(0,'/repo')
import numpy as np, pandas as pd, warnings
warnings.simplefilter('ignore')
from score_analysis import showbias, BootstrapConfig
data = pd.DataFrame({"group": ["A","A","B","B"], "score":[0.8,0.6,0.4,0.2], "label":[1,1,1,1]})
for norm in [None,'by_overall','by_min']:
    r = showbias(data, metric="fnr", threshold=[0.5], group_columns="group", label_column="label", score_column="score", normalize=norm, bootstrap_ci=True, bootstrap_config=BootstrapConfig(bootstrap_method="quantile", nb_samples=50))
    print(norm); print(r.values, r.lower, r.upper, sep='\n')
