import sys; sys.path.insert(0,'/repo')
import numpy as np, warnings, math
warnings.simplefilter('ignore')
from statistics import NormalDist
from score_analysis.utils import bootstrap_ci
ND = NormalDist()
def ppf(p):
    if p<=0: return -math.inf
    if p>=1: return math.inf
    return ND.inv_cdf(p)
def cdf(z):
    if z==-math.inf: return 0.0
    if z==math.inf: return 1.0
    return ND.cdf(z)
def quant(vals,q):
    v = sorted(x for x in vals if not math.isnan(x))
    if not v: return math.nan
    pos = q*(len(v)-1); lo=math.floor(pos); hi=min(lo+1,len(v)-1); fr=pos-lo
    return v[lo]+(v[hi]-v[lo])*fr
def ref(theta, that, alpha, method):
    fin = [x for x in theta if not math.isnan(x)]
    al, au = alpha/2, 1-alpha/2
    if method=='quantile': return quant(theta,al), quant(theta,au)
    p0 = sum(1 for x in fin if x<=that)/len(fin)
    z0 = ppf(p0)
    zl, zu = ppf(al), ppf(au)
    if method=='bc':
        a1, a2 = cdf(2*z0+zl), cdf(2*z0+zu)
    else:
        num = math.fsum((x-that)**3 for x in fin); den = 6*math.fsum((x-that)**2 for x in fin)**1.5
        a = num/den if den!=0 else 0.0
        if math.isinf(z0): a1=a2=cdf(z0)
        else:
            sl=z0+zl; su=z0+zu
            a1 = cdf(z0+sl/(1-a*sl)); a2=cdf(z0+su/(1-a*su))
    return quant(theta,a1), quant(theta,a2)
rng = np.random.default_rng(13)
bad={}; n=0
for trial in range(20000):
    N = int(rng.choice([1,2,3,5,10,50,200]))
    kind = rng.integers(0,6)
    if kind==0: th = rng.normal(0,1,N)
    elif kind==1: th = np.full(N, rng.normal())
    elif kind==2: th = rng.integers(0,4,N).astype(float)
    elif kind==3: th = rng.exponential(1,N)**2
    elif kind==4: th = np.concatenate([rng.normal(0,1,N-1),[1e6]]) if N>1 else rng.normal(0,1,N)
    else:
        th = rng.normal(0,1,N); 
        if N>1: th[rng.integers(0,N,size=max(1,N//4))]=np.nan
        if np.all(np.isnan(th)): th[0]=0.3
    that = float(rng.choice([np.nanmedian(th), np.nanmean(th), np.nanmin(th)-1, np.nanmax(th)+1, rng.choice(th[~np.isnan(th)]), rng.normal()]))
    alpha = float(rng.choice([0.05,0.1,0.5,0.01,0.9,rng.uniform(0.001,0.999)]))
    for method in ['quantile','bc','bca']:
        got = bootstrap_ci(th, that, alpha, method=method)
        exp = ref(th.tolist(), that, alpha, method)
        n+=1
        sc = max(1.0, np.nanmax(np.abs(th)))
        if got.shape!=(2,) or not np.allclose(got, exp, rtol=1e-9, atol=1e-9*sc, equal_nan=True):
            bad.setdefault((method,kind),[]).append((th.tolist(),that,alpha,got.tolist(),exp))
print(n,len(bad))
for k,v in sorted(bad.items(), key=str): print(k,len(v),str(min(v,key=lambda x:len(str(x))))[:600])
