import sys; sys.path.insert(0,'/tmp/probe/rf')
from genf import *
from score_analysis import BootstrapConfig
from score_analysis.experimental import fixed_width_band_ci
import collections
rng = np.random.default_rng(6); np.random.seed(6)
st=collections.Counter(); ex={}
for trial in range(600):
    pos,neg = gen_scores(rng,2,2,maxn=40); ep,en=easy(rng)
    if rng.random()<0.6: ep=en=0
    for sc,ec in CFG:
        s = Scores(pos,neg,nb_easy_pos=ep,nb_easy_neg=en,score_class=sc,equal_class=ec)
        nbp = rng.choice([None,2,3,4,5,10,21,50]); nbp=None if nbp is None else int(nbp)
        cfg = BootstrapConfig(nb_samples=10)
        try:
            r = fixed_width_band_ci(s, nb_points=nbp, config=cfg)
            bad = np.isnan(r.fnr_ci).any() or np.isnan(r.fpr_ci).any() or np.any(r.fnr_ci[:,0]>r.fnr_ci[:,1]) or np.any(r.fpr_ci[:,0]>r.fpr_ci[:,1])
            st[(nbp,ep>0 or en>0,'bad' if bad else 'ok')]+=1
        except Exception as e:
            st[(nbp,ep>0 or en>0,type(e).__name__)]+=1; ex.setdefault((nbp,ep>0 or en>0),(np.asarray(pos).tolist(),np.asarray(neg).tolist(),ep,en,sc,ec))
for k,v in sorted(st.items(),key=str): print(k,v)
for k,v in ex.items(): print(k,str(v)[:300])
