import sys; sys.path.insert(0,'/repo')
import numpy as np, warnings, itertools
warnings.simplefilter('ignore')
from score_analysis import Scores
rng = np.random.default_rng(0)
metrics = ['tpr','fnr','tnr','fpr','topr','tonr']
bad = {}
n=0
for trial in range(3000):
    npos = rng.integers(1,40); nneg = rng.integers(1,40)
    if rng.random()<0.5:
        pos = rng.normal(0,1,npos); neg = rng.normal(0,1,nneg)
    else:
        pos = rng.integers(0,6,npos).astype(float); neg = rng.integers(0,6,nneg).astype(float)
    ep = int(rng.choice([0,0,1,3,7,50])); en = int(rng.choice([0,0,1,2,9,100]))
    for sc,ec in itertools.product(['pos','neg'],['pos','neg']):
        s = Scores(pos,neg,nb_easy_pos=ep,nb_easy_neg=en,score_class=sc,equal_class=ec)
        # achievable range: evaluate metric at -inf and inf
        for m in metrics:
            vals = getattr(s,m)(np.array([-np.inf,np.inf]))
            lo,hi = vals.min(), vals.max()
            for method in ['linear','lower','higher']:
                for r,want in [(0.0,lo),(-0.3,lo),(1.0,hi),(1.7,hi)]:
                    t = getattr(s,'threshold_at_'+m)(r,method=method)
                    got = getattr(s,m)(t)
                    n+=1
                    if got!=want:
                        key=(m,sc,ec,method,r, ep>0, en>0)
                        bad.setdefault(key,[]).append((npos,nneg,ep,en,got,want))
print(n, len(bad))
for k,v in sorted(bad.items()):
    print(k, len(v), v[0])
