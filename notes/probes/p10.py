from gen import *
from score_analysis import pointwise_cm
rng = np.random.default_rng(100)
bad={}; n=0
def rec(k,i): bad.setdefault(k,[]).append(i)
rates = ['tpr','fnr','tnr','fpr','topr','tonr']
alias = {'tpr':'tar','fnr':'frr','tnr':'trr','fpr':'far','topr':'acceptance_rate','tonr':'rejection_rate'}
def state(s): return (s.pos.copy(), s.neg.copy(), s.nb_easy_pos, s.nb_easy_neg, s.score_class, s.equal_class)
def same(a,b): return np.array_equal(a[0],b[0]) and np.array_equal(a[1],b[1]) and a[2:]==b[2:]
for trial in range(800):
    pos,neg = gen_scores(rng,1,1,maxn=15); ep,en=easy(rng)
    pos0,neg0 = np.array(pos,copy=True),np.array(neg,copy=True)
    for sc,ec in CFG:
        s = Scores(pos,neg,nb_easy_pos=ep,nb_easy_neg=en,score_class=sc,equal_class=ec, is_sorted=False)
        st0 = state(s)
        shp = tuple(rng.integers(0,4,int(rng.integers(0,4))))
        th = rng.normal(0,2,shp); th0=th.copy()
        tg = rng.uniform(-0.1,1.1,shp); tg0=tg.copy()
        cm = s.cm(th)
        if cm.matrix.shape!=(*shp,2,2): rec(('cmshape',),(shp,cm.matrix.shape))
        for m in rates:
            v = getattr(s,m)(th); va = getattr(s,alias[m])(th)
            if shp==():
                if not isinstance(v,float): rec(('scalar_rate',m),(type(v),))
            else:
                if v.shape!=shp: rec(('rate_shape',m),(shp,v.shape))
                for idx in np.ndindex(*shp):
                    if not np.array_equal(v[idx], getattr(s,m)(float(th[idx])), equal_nan=True): rec(('elem_rate',m),()); break
            if not np.array_equal(v,va,equal_nan=True): rec(('alias',m),())
            for meth in ['linear','lower','higher']:
                t = getattr(s,'threshold_at_'+m)(tg,method=meth); ta = getattr(s,'threshold_at_'+alias[m])(tg,method=meth)
                if shp==():
                    if not isinstance(t,float): rec(('scalar_thr',m),(type(t),))
                else:
                    if t.shape!=shp: rec(('thr_shape',m),(shp,t.shape))
                    for idx in np.ndindex(*shp):
                        if t[idx]!=getattr(s,'threshold_at_'+m)(float(tg[idx]),method=meth): rec(('elem_thr',m,meth),(shp,)); break
                if not np.array_equal(t,ta): rec(('alias_thr',m),())
                t2 = getattr(s,'threshold_at_'+m)(tg,method=meth)
                if not np.array_equal(t,t2): rec(('repeat',),())
        # python scalar input
        v = s.tpr(0.3); t = s.threshold_at_fpr(0.3)
        if not isinstance(v,float) or not isinstance(t,float): rec(('pyscalar',),(type(v),type(t)))
        e1=s.eer(); a1=s.auc(); e2=s.eer(); a2=s.auc()
        if e1!=e2 or a1!=a2: rec(('repeat2',),())
        if not same(st0,state(s)): rec(('mutated_obj',),())
        if not (np.array_equal(th,th0) and np.array_equal(tg,tg0) and np.array_equal(pos,pos0) and np.array_equal(neg,neg0)): rec(('mutated_arg',),())
        labels = np.concatenate([np.ones(len(pos)),np.zeros(len(neg))]); sv=np.concatenate([pos,neg])
        sshape = tuple(rng.choice([(),(len(sv),)],1)[0]) if False else (len(sv),)
        pw = pointwise_cm(labels,sv,th,score_class=sc,equal_class=ec)
        if pw.shape!=(len(sv),*shp,2,2): rec(('pwshape',),(pw.shape,shp))
        n+=1
print(n,len(bad))
for k,v in sorted(bad.items(), key=str): print(k,len(v),str(min(v,key=lambda x:len(str(x))))[:300])
