import sys; sys.path.insert(0,'/repo')
import numpy as np, warnings
warnings.simplefilter('ignore')
from score_analysis import Scores, BootstrapConfig, roc_with_ci
from score_analysis.experimental import pointwise_band_ci, simultaneous_joint_region_ci, fixed_width_band_ci
np.random.seed(0)
s = Scores(pos=np.random.normal(1,1,50), neg=np.random.normal(-1,1,60))
cfg = BootstrapConfig(nb_samples=20)
for f in [pointwise_band_ci, simultaneous_joint_region_ci, fixed_width_band_ci]:
    try:
        r = f(s, nb_points=10, config=cfg)
        print(f.__name__, 'ok', r.fnr_ci.shape)
    except Exception as e:
        print(f.__name__, type(e).__name__, e)
r = roc_with_ci(s, nb_points=10, config=cfg)
print(r.fnr_ci.shape, np.isnan(r.fnr_ci).any())
