import sys; sys.path.insert(0,'/tmp/probe/rf')
from genf import *
from score_analysis import BootstrapConfig
from score_analysis.experimental import pointwise_band_ci, simultaneous_joint_region_ci, fixed_width_band_ci
rng = np.random.default_rng(5); np.random.seed(5)
bad={}; n=0
def rec(k,i): bad.setdefault(k,[]).append(i)
for trial in range(300):
    pos,neg = gen_scores(rng,2,2,maxn=40); ep,en=easy(rng)
    if rng.random()<0.6: ep=en=0
    for sc,ec in CFG:
        s = Scores(pos,neg,nb_easy_pos=ep,nb_easy_neg=en,score_class=sc,equal_class=ec)
        for f in [pointwise_band_ci, simultaneous_joint_region_ci, fixed_width_band_ci]:
            kw={}
            mode = rng.integers(0,4)
            if mode==0: kw['nb_points']=int(rng.choice([2,5,10,21]))
            elif mode==1: kw['nb_points']=None
            elif mode==2: kw['fnr']=np.sort(rng.uniform(0,1,4))
            else: kw['thresholds']=rng.normal(0,1,5)
            if f is fixed_width_band_ci and mode>=2: continue
            cfg = BootstrapConfig(nb_samples=10, bootstrap_method=str(rng.choice(['quantile','bc','bca'])))
            try: r = f(s, alpha=float(rng.choice([0.05,0.2])), config=cfg, **kw)
            except Exception as e: rec((f.__name__,'exc',type(e).__name__,mode),(str(e)[:100],np.asarray(pos).tolist(),np.asarray(neg).tolist(),ep,en,sc,ec,kw)); continue
            n+=1
            k=len(r.thresholds)
            if r.fnr_ci.shape!=(k,2) or r.fpr_ci.shape!=(k,2): rec((f.__name__,'shape'),(r.fnr_ci.shape,k))
            if np.isnan(r.fnr_ci).any() or np.isnan(r.fpr_ci).any(): rec((f.__name__,'nan',mode),(np.asarray(pos).tolist(),np.asarray(neg).tolist(),ep,en,sc,ec,kw))
            elif np.any(r.fnr_ci[:,0]>r.fnr_ci[:,1]) or np.any(r.fpr_ci[:,0]>r.fpr_ci[:,1]): rec((f.__name__,'order',mode),(np.asarray(pos).tolist(),np.asarray(neg).tolist(),ep,en,sc,ec,kw,r.fnr_ci.tolist(),r.fpr_ci.tolist()))
            if not (np.array_equal(r.fnr,s.fnr(r.thresholds)) and np.array_equal(r.fpr,s.fpr(r.thresholds))): rec((f.__name__,'rates'),())
print(n,len(bad))
for k,v in sorted(bad.items(), key=str): print(k,len(v),str(min(v,key=lambda x:len(str(x))))[:700])
