from gen import *
from score_analysis import GroupScores, BootstrapConfig, groupwise
rng = np.random.default_rng(12); np.random.seed(12)
bad={}; n=0
def rec(k,i): bad.setdefault(k,[]).append(i)
for trial in range(600):
    G = int(rng.integers(1,5)); names = list(rng.choice(['a','b','c','dd','e_f','Z'],G,replace=False))
    big = rng.random()<0.2
    npos = int(rng.integers(120,200)) if big else int(rng.integers(1,25)); nneg = int(rng.integers(120,200)) if big else int(rng.integers(1,25))
    allv = rng.permutation(npos+nneg)*0.5 - 3.0  # unique
    pos, neg = allv[:npos], allv[npos:]
    pg = rng.choice(names,npos); ng = rng.choice(names,nneg)
    owner = {**{float(v):('p',g) for v,g in zip(pos,pg)}, **{float(v):('n',g) for v,g in zip(neg,ng)}}
    def check_attached(gs, tag, src_owner=owner, swapped=False):
        for v,g in zip(gs.pos,gs.pos_groups):
            o = src_owner[float(v)]
            if o[1]!=g or o[0]!=('n' if swapped else 'p'): rec((tag,'attach_pos'),()); break
        for v,g in zip(gs.neg,gs.neg_groups):
            o = src_owner[float(v)]
            if o[1]!=g or o[0]!=('p' if swapped else 'n'): rec((tag,'attach_neg'),()); break
        if np.any(np.diff(gs.pos)<0) or np.any(np.diff(gs.neg)<0): rec((tag,'sorted'),())
    for sc,ec in CFG:
        gs = GroupScores(pos,neg,pos_groups=pg,neg_groups=ng,score_class=sc,equal_class=ec)
        n+=1
        check_attached(gs,'ctor')
        check_attached(gs.swap(),'swap',swapped=True)
        ths = np.concatenate([rng.normal(0,3,4), rng.choice(allv,3)])
        tot = np.zeros((len(ths),2,2),int)
        gcm = gs.group_cm(ths).matrix
        if list(gs.groups)!=sorted(set(pg)|set(ng)): rec(('groups',),())
        for i,g in enumerate(gs.groups):
            sub = gs[g]
            fp = np.sort(pos[pg==g]); fn_ = np.sort(neg[ng==g])
            if not (np.array_equal(sub.pos,fp) and np.array_equal(sub.neg,fn_)): rec(('getitem',),())
            ref = Scores(fp,fn_,score_class=sc,equal_class=ec).cm(ths).matrix
            if not np.array_equal(gcm[i],ref): rec(('group_cm',),())
            tot+=ref
        if not np.array_equal(tot, gs.cm(ths).matrix): rec(('partition',),())
        gw = groupwise('fnr')(gs, threshold=ths)
        if not np.array_equal(gw, gs.group_fnr(ths), equal_nan=True): rec(('groupwise',),())
        for meth in ['replacement','single_pass','dynamic']:
            for strat in [None,'by_label','by_group']:
                if strat=='by_group' and meth=='single_pass' and any((pg==g).sum()==0 or (ng==g).sum()==0 for g in gs.groups): continue
                try: b = gs.bootstrap_sample(BootstrapConfig(sampling_method=meth, stratified_sampling=strat))
                except Exception as e: rec(('exc',meth,strat,type(e).__name__),(str(e),npos,nneg,G)); continue
                check_attached(b,('bs',meth,strat))
                if list(b.groups)!=list(gs.groups): rec(('bs_groups',meth,strat),())
                if b.score_class!=gs.score_class or b.equal_class!=gs.equal_class: rec(('bs_cfg',),())
                if strat=='by_group' and meth!='single_pass':
                    for g in gs.groups:
                        if (b.pos_groups==g).sum()+(b.neg_groups==g).sum()!=(pg==g).sum()+(ng==g).sum(): rec(('bs_groupcount',meth),())
                if strat=='by_label' and meth=='replacement':
                    if len(b.pos)!=npos or len(b.neg)!=nneg: rec(('bs_label',),())
print(n,len(bad))
for k,v in sorted(bad.items(), key=str): print(k,len(v),str(min(v,key=lambda x:len(str(x))))[:300])
