import sys; sys.path.insert(0,'/repo')
import numpy as np
from score_analysis import Scores
s = Scores(pos=[1.,2,3], neg=[0.5,1.5,2.5,3.5])
for ec in ['pos','neg']:
  for sc in ['pos','neg']:
    s = Scores(pos=[1.,2,3], neg=[0.5,1.5,2.5,3.5], score_class=sc, equal_class=ec)
    for m in ['tpr','fnr','tnr','fpr']:
        for r in [0.,1.]:
            t = getattr(s,'threshold_at_'+m)(r)
            print(sc,ec,m,r,repr(t),getattr(s,m)(t))
