import sys; sys.path.insert(0,'/repo')
import numpy as np, pandas as pd, warnings
warnings.simplefilter('ignore')
from score_analysis import showbias, BootstrapConfig
# D7: underscore collisions
data = pd.DataFrame({"g1": ["a_b","a","x","x"], "g2":["c","b_c","y","z_w"], "score":[0.8,0.2,0.4,0.6], "label":[1,1,1,1]})
try:
    r = showbias(data, metric="fnr", threshold=[0.5], group_columns=["g1","g2"], label_column="label", score_column="score")
    print(r.values)
except Exception as e: print(type(e).__name__, e)
data = pd.DataFrame({"g1": ["a_b","p","x","x"], "g2":["c","q_c","y","z_w"], "score":[0.8,0.2,0.4,0.6], "label":[1,1,1,1]})
try:
    r = showbias(data, metric="fnr", threshold=[0.5], group_columns=["g1","g2"], label_column="label", score_column="score")
    print(r.values)
except Exception as e: print(type(e).__name__, e)
# D9: theta_hat unnormalised w/ bc
rng=np.random.default_rng(0)
n=400
data = pd.DataFrame({"g": rng.choice(["A","B","C"],n), "score": rng.uniform(0,1,n), "label": rng.integers(0,2,n)})
for bm in ['quantile','bc','bca']:
    np.random.seed(1)
    r = showbias(data, metric="fnr", threshold=[0.3,0.6], group_columns="g", label_column="label", score_column="score", normalize='by_overall', bootstrap_ci=True, bootstrap_config=BootstrapConfig(nb_samples=200,bootstrap_method=bm, stratified_sampling='by_group'))
    print(bm); print(pd.concat([r.lower,r.values,r.upper],axis=1))
