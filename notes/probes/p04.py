import sys; sys.path.insert(0,'/repo')
import numpy as np, warnings, math, itertools
warnings.simplefilter('ignore')
from score_analysis import ConfusionMatrix, metrics as M
from statistics import NormalDist
rng = np.random.default_rng(4)
bad={}; n=0
def rec(k,i): bad.setdefault(k,[]).append(i)
def genmat(lead):
    kind = rng.integers(0,5)
    shp = (*lead,2,2)
    if kind==0: m = rng.integers(0,5,shp)
    elif kind==1: m = rng.integers(0,10**6,shp)
    elif kind==2: m = rng.uniform(0,10,shp)
    elif kind==3: m = rng.integers(0,3,shp)*rng.integers(0,2,shp)
    else: m = rng.uniform(0,1,shp)*rng.integers(0,2,shp)
    return m
for trial in range(4000):
    lead = tuple(rng.integers(0,4,int(rng.integers(0,3))))
    m = genmat(lead)
    cm = ConfusionMatrix(matrix=m, binary=True)
    tp,fn,fp,tn = m[...,0,0],m[...,0,1],m[...,1,0],m[...,1,1]
    n+=1
    def chk(name, val, num, den):
        val = np.asarray(val)
        if val.shape!=lead: rec(('shape',name),(lead,val.shape)); return
        isn = np.isnan(val)
        if not np.array_equal(isn, den==0): rec(('nanlocus',name),(m.tolist(),))
        ok = ~isn
        if np.any(val[ok]<0) or np.any(val[ok]>1): rec(('range',name),())
        exp = np.where(den!=0, num/np.where(den==0,1,den), np.nan)
        if not np.allclose(val,exp,rtol=1e-12,atol=0,equal_nan=True): rec(('value',name),())
    P,N_,TOP,TON,POP = tp+fn, fp+tn, tp+fp, fn+tn, tp+fn+fp+tn
    chk('tpr',cm.tpr(),tp,P); chk('fnr',cm.fnr(),fn,P); chk('tnr',cm.tnr(),tn,N_); chk('fpr',cm.fpr(),fp,N_)
    chk('ppv',cm.ppv(),tp,TOP); chk('fdr',cm.fdr(),fp,TOP); chk('npv',cm.npv(),tn,TON); chk('for',cm.for_(),fn,TON)
    chk('topr',cm.topr(),TOP,POP); chk('tonr',cm.tonr(),TON,POP); chk('acc',cm.accuracy(),tp+tn,POP); chk('err',cm.error_rate(),fp+fn,POP)
    for a,b in [('tpr','fnr'),('tnr','fpr'),('ppv','fdr'),('npv','for_'),('topr','tonr'),('accuracy','error_rate')]:
        s_ = np.asarray(getattr(cm,a)())+np.asarray(getattr(cm,b)())
        if not np.all(np.isnan(s_)|(np.abs(s_-1)<1e-12)): rec(('compl',a),())
    if not (np.array_equal(cm.p()+cm.n(),cm.pop()) and np.array_equal(cm.top()+cm.ton(),cm.pop())):
        if not np.allclose(cm.p()+cm.n(),cm.pop()): rec(('pop',),())
    a1,a2 = sorted(rng.uniform(0.001,0.999,2))
    for nm,cnt,nobs,compl in [('tpr_ci',tp,P,'fnr_ci'),('tnr_ci',tn,N_,'fpr_ci'),('fpr_ci',fp,N_,'tnr_ci'),('fnr_ci',fn,P,'tpr_ci')]:
        ci = getattr(cm,nm)(alpha=a1); ci2 = getattr(cm,nm)(alpha=a2); cc = getattr(cm,compl)(alpha=a1)
        if ci.shape!=(*lead,2): rec(('cishape',nm),(lead,ci.shape)); continue
        p = np.where(nobs!=0, cnt/np.where(nobs==0,1,nobs), np.nan)
        z = NormalDist().inv_cdf(1-a1/2)
        hw = z*np.sqrt(p*(1-p)/np.where(nobs==0,1,nobs))
        if not np.allclose(ci[...,0],p-hw,rtol=1e-9,atol=1e-12,equal_nan=True) or not np.allclose(ci[...,1],p+hw,rtol=1e-9,atol=1e-12,equal_nan=True): rec(('civalue',nm),())
        if not np.array_equal(np.isnan(ci[...,0]), nobs==0): rec(('cinan',nm),())
        ok = nobs!=0
        # nested: a1<a2 => ci(a1) wider
        if np.any(ci[...,0][ok] > ci2[...,0][ok]+1e-15) or np.any(ci[...,1][ok] < ci2[...,1][ok]-1e-15): rec(('nested',nm),())
        if not np.allclose(cc[...,0], 1-ci[...,1], atol=1e-12, equal_nan=True) or not np.allclose(cc[...,1],1-ci[...,0],atol=1e-12,equal_nan=True): rec(('mirror',nm),())
print(n,len(bad))
for k,v in sorted(bad.items(), key=str): print(k,len(v),str(min(v,key=lambda x:len(str(x))))[:400])
