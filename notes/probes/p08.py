from gen import *
rng = np.random.default_rng(10)
bad={}; n=0
def rec(key,info): bad.setdefault(key,[]).append(info)
metrics = ['tpr','fnr','tnr','fpr','topr','tonr']
comp = {'fpr':'fnr','fnr':'fpr','tpr':'tnr','tnr':'tpr','topr':'tonr','tonr':'topr'}
flip = {'pos':'neg','neg':'pos'}
def close(a,b,span):
    a=np.asarray(a,float);b=np.asarray(b,float)
    return np.all(np.abs(a-b) <= 8*np.spacing(np.maximum(np.abs(a),np.abs(b))) + 1e-9*span)
for trial in range(2000):
    tiefree = rng.random()<0.5
    if tiefree:
        npos = int(rng.integers(1,20)); nneg=int(rng.integers(1,20)); allv=rng.normal(0,1,npos+nneg); pos,neg=allv[:npos],allv[npos:]
    else:
        pos,neg = gen_scores(rng,1,1,maxn=20); pos=np.asarray(pos,float); neg=np.asarray(neg,float)
    ep,en = easy(rng)
    allv=np.concatenate([pos,neg]); span=max(1.0,np.ptp(allv), np.abs(allv).max())
    ths = np.concatenate([rng.normal(0,2,5), rng.choice(allv,4), [-np.inf,np.inf]])
    a = float(rng.choice([0.5,2.0,rng.uniform(0.1,10),1.0])); b=float(rng.choice([0.0,rng.normal(0,5),1.0]))
    for sc,ec in CFG:
        s = Scores(pos,neg,nb_easy_pos=ep,nb_easy_neg=en,score_class=sc,equal_class=ec)
        sw = s.swap()
        n+=1
        for m in metrics:
            if not np.array_equal(getattr(s,m)(ths), getattr(sw,comp[m])(ths)): rec((sc,ec,'swap',m),(pos.tolist(),neg.tolist()))
        ng = Scores(-pos,-neg,nb_easy_pos=ep,nb_easy_neg=en,score_class=flip[sc],equal_class=ec)
        if not np.array_equal(s.cm(ths).matrix, ng.cm(-ths).matrix): rec((sc,ec,'neg_cm'),(pos.tolist(),neg.tolist()))
        af = Scores(a*pos+b,a*neg+b,nb_easy_pos=ep,nb_easy_neg=en,score_class=sc,equal_class=ec)
        rs = np.concatenate([rng.uniform(-0.1,1.1,5),[0,1],rng.uniform(0,1,3)])
        for m in metrics:
            t = getattr(s,'threshold_at_'+m)(rs)
            tn_ = getattr(ng,'threshold_at_'+m)(rs)
            if not close(tn_,-t,span): rec((sc,ec,'neg_thr',m),(pos.tolist(),neg.tolist(),ep,en,rs.tolist(),t.tolist(),tn_.tolist()))
            ta = getattr(af,'threshold_at_'+m)(rs)
            if not close(ta,a*t+b,span*max(a,1)+abs(b)): rec((sc,ec,'aff_thr',m),(pos.tolist(),neg.tolist(),ep,en,a,b,rs.tolist(),t.tolist(),ta.tolist()))
        # auc
        if abs(s.auc()-af.auc())>1e-12 or abs(s.auc()-ng.auc())>1e-12: rec((sc,ec,'auc'),(pos.tolist(),neg.tolist()))
        lo,up=sorted(rng.uniform(0,1,2))
        if abs(s.auc(lo,up)-af.auc(lo,up))>1e-9: rec((sc,ec,'pauc_aff'),(pos.tolist(),neg.tolist(),ep,en,a,b,lo,up,s.auc(lo,up),af.auc(lo,up)))
        if tiefree:
            t,e = s.eer(); t2,e2 = ng.eer(); t3,e3=af.eer()
            if not close(t2,-t,span) or abs(e-e2)>1e-8: rec((sc,ec,'neg_eer'),(pos.tolist(),neg.tolist(),ep,en,t,e,t2,e2))
            if not close(t3,a*t+b,span*max(a,1)+abs(b)) or abs(e-e3)>1e-8: rec((sc,ec,'aff_eer'),(pos.tolist(),neg.tolist(),ep,en,a,b,t,e,t3,e3))
print(n,len(bad))
for k,v in sorted(bad.items(), key=str): print(k,len(v),str(min(v,key=lambda x:len(str(x))))[:700])
