from gen import *
from score_analysis import BootstrapConfig, GroupScores
from score_analysis.applications import FraudScores, doc_to_binary_label, binary_to_doc_label, DocLabel
from score_analysis import BinaryLabel
from score_analysis.utils import bootstrap_ci as BCI
rng = np.random.default_rng(14)
bad={}; n=0
def rec(k,i): bad.setdefault(k,[]).append(i)
for trial in range(200):
    pos,neg = gen_scores(rng,2,2,maxn=30); ep,en=easy(rng)
    s = Scores(pos,neg,nb_easy_pos=ep,nb_easy_neg=en)
    # counting deterministic sampler
    made=[]
    def sampler(src):
        k=len(made); r = np.random.default_rng(1000+k)
        smp = Scores(r.choice(src.pos,len(src.pos)), r.choice(src.neg,len(src.neg)), nb_easy_pos=src.nb_easy_pos, nb_easy_neg=src.nb_easy_neg, score_class=src.score_class, equal_class=src.equal_class)
        made.append(smp); return smp
    th = rng.normal(0,1,3)
    cfg = BootstrapConfig(nb_samples=7, sampling_method=sampler, bootstrap_method='bca')
    for metric,kw,fn in [('fnr',{'threshold':th},lambda x: x.fnr(th)), ('eer',{},lambda x: np.asarray(x.eer())), (lambda x, threshold: x.cm(threshold).matrix.astype(float), {'threshold':th}, lambda x: x.cm(th).matrix.astype(float)), ('threshold_at_fpr',{'fpr':0.2,'method':'lower'},lambda x: np.asarray(x.threshold_at_fpr(0.2,method='lower')))]:
        made.clear()
        res = s.bootstrap_metric(metric, config=cfg, **kw)
        n+=1
        if res.shape[0]!=7 or len(made)!=7: rec(('rows',),(res.shape,len(made)))
        for j in range(7):
            if not np.array_equal(res[j], fn(made[j]), equal_nan=True): rec(('row',str(metric)[:10]),()); break
        made.clear()
        ci = s.bootstrap_ci(metric, alpha=0.1, config=cfg, **kw)
        reps = np.stack([np.asarray(fn(m)) for m in made])
        exp = BCI(reps, fn(s), 0.1, method='bca')
        if not np.allclose(ci,exp,equal_nan=True): rec(('ci',str(metric)[:10]),())
    # identity
    idc = BootstrapConfig(nb_samples=5, sampling_method=lambda x:x, bootstrap_method=str(rng.choice(['quantile','bc','bca'])))
    ci = s.bootstrap_ci('fnr', config=idc, threshold=th)
    if not np.array_equal(ci, np.stack([s.fnr(th)]*2,axis=-1), equal_nan=True): rec(('identity',),(ci.tolist(),s.fnr(th).tolist()))
    # reproducible
    cfgb = BootstrapConfig(nb_samples=5, sampling_method=str(rng.choice(['replacement','single_pass','dynamic'])))
    np.random.seed(3); a = s.bootstrap_ci('tpr', config=cfgb, threshold=th); np.random.seed(3); b = s.bootstrap_ci('tpr', config=cfgb, threshold=th)
    if not np.array_equal(a,b,equal_nan=True): rec(('repro',),())
    # group-wise name resolution
    g = GroupScores(pos,neg,pos_groups=rng.choice(['a','b'],len(pos)),neg_groups=rng.choice(['a','b'],len(neg)))
    r = g.bootstrap_metric('group_fnr', config=BootstrapConfig(nb_samples=3), threshold=th)
    if r.shape!=(3,len(g.groups),3): rec(('group',),(r.shape,))
    # C19
    gp = rng.uniform(0,1,int(rng.integers(0,10))); fr = rng.uniform(0,1,int(rng.integers(0,10)))
    scl = str(rng.choice(['genuine','fraud']))
    f = FraudScores(genuines=gp, frauds=fr, nb_easy_genuines=ep, nb_easy_frauds=en, score_class=scl)
    ref = Scores(gp,fr,nb_easy_pos=ep,nb_easy_neg=en,score_class='pos' if scl=='genuine' else 'neg', equal_class='pos')
    if not (np.array_equal(f.cm(th).matrix, ref.cm(th).matrix) and np.array_equal(f.genuines,ref.pos) and np.array_equal(f.frauds,ref.neg) and f==ref): rec(('fraud_eq',),())
    for badv in [-0.01, 1.01, 2, -1e-12]:
        for which in ['g','f']:
            try:
                FraudScores(genuines=np.append(gp,badv) if which=='g' else gp, frauds=np.append(fr,badv) if which=='f' else fr); rec(('fraud_noraise',),(badv,))
            except ValueError: pass
    for l in ['pos','neg']:
        if doc_to_binary_label(binary_to_doc_label(l)).value!=l: rec(('label_inv',),())
    for l in ['genuine','fraud']:
        if binary_to_doc_label(doc_to_binary_label(l)).value!=l: rec(('label_inv2',),())
print(n,len(bad))
for k,v in sorted(bad.items(), key=str): print(k,len(v),str(min(v,key=lambda x:len(str(x))))[:300])
