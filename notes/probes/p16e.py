import sys; sys.path.insert(0,'/tmp/probe/rf')
from genf import *
from score_analysis import BootstrapConfig, roc_with_ci
rng = np.random.default_rng(66); np.random.seed(66)
bad={}; n=0
def rec(k,i): bad.setdefault(k,[]).append(i)
for trial in range(250):
    pos,neg = gen_scores(rng,2,2,maxn=40); ep,en=easy(rng)
    if rng.random()<0.5: ep=en=0
    if rng.random()<0.2: pos = rng.normal(1,1,150); neg=rng.normal(-1,1,130)
    for sc,ec in CFG:
        s = Scores(pos,neg,nb_easy_pos=ep,nb_easy_neg=en,score_class=sc,equal_class=ec)
        kw={}
        mode = rng.integers(0,4)
        if mode==0: kw['nb_points']=int(rng.choice([2,5,10,21]))
        elif mode==1: kw['nb_points']=None
        elif mode==2: kw['fnr']=np.sort(rng.uniform(0,1,4))
        else: kw['thresholds']=rng.normal(0,1,5)
        cfg = BootstrapConfig(nb_samples=int(rng.choice([5,20,60])), bootstrap_method=str(rng.choice(['quantile','bc','bca'])), sampling_method=str(rng.choice(['replacement','single_pass','dynamic'])), stratified_sampling=rng.choice([None,'by_label']))
        alpha=float(rng.choice([0.05,0.2,0.5]))
        try: r = roc_with_ci(s, alpha=alpha, config=cfg, x_axis=str(rng.choice(['fpr','fnr','tpr','tnr'])), **kw)
        except Exception as e: rec(('exc',type(e).__name__,cfg.sampling_method),(str(e)[:100],len(pos),len(neg),ep,en,sc,ec,kw)); continue
        n+=1
        k=len(r.thresholds)
        if r.fnr_ci.shape!=(k,2) or r.fpr_ci.shape!=(k,2): rec(('shape',),())
        if np.isnan(r.fnr_ci).any() or np.isnan(r.fpr_ci).any(): rec(('nan',cfg.bootstrap_method,cfg.sampling_method),(len(pos),len(neg),ep,en,sc,ec,kw,cfg.nb_samples))
        elif np.any(r.fnr_ci[:,0]>r.fnr_ci[:,1]) or np.any(r.fpr_ci[:,0]>r.fpr_ci[:,1]): rec(('order',cfg.bootstrap_method),())
        elif min(r.fnr_ci.min(),r.fpr_ci.min())<0 or max(r.fnr_ci.max(),r.fpr_ci.max())>1: rec(('range',),())
        if not (np.array_equal(r.fnr,s.fnr(r.thresholds)) and np.array_equal(r.fpr,s.fpr(r.thresholds))): rec(('rates',),())
print(n,len(bad))
for k,v in sorted(bad.items(), key=str): print(k,len(v),str(min(v,key=lambda x:len(str(x))))[:500])
