from gen import *
rng = np.random.default_rng(2)
metrics = ['tpr','fnr','tnr','fpr','topr','tonr']
bad={}; n=0
def popn(s,m):
    return {'tpr':s.nb_all_pos,'fnr':s.nb_all_pos,'tnr':s.nb_all_neg,'fpr':s.nb_all_neg,'topr':s.nb_all_samples,'tonr':s.nb_all_samples}[m]
for trial in range(2000):
    pos,neg = gen_scores(rng,1,1)
    ep,en = easy(rng)
    for sc,ec in CFG:
        s = Scores(pos,neg,nb_easy_pos=ep,nb_easy_neg=en,score_class=sc,equal_class=ec)
        for m in metrics:
            N = popn(s,m)
            f = getattr(s,m)
            lo,hi = sorted(f(np.array([-np.inf,np.inf])))
            k = rng.integers(0,N+1)
            rs = np.array([rng.uniform(-0.2,1.2), rng.uniform(0,1), k/N, rng.uniform(lo,hi), (np.floor(rng.uniform(lo,hi)*N))/N, lo, hi, 0.,1.])
            t = getattr(s,'threshold_at_'+m)(rs)
            rc = np.clip(rs,lo,hi)
            v = np.stack([f(np.nextafter(t,-np.inf)), f(t), f(np.nextafter(t,np.inf))])
            # wider: a few ulps
            tm = t.copy(); tp_=t.copy()
            for _ in range(4): tm=np.nextafter(tm,-np.inf); tp_=np.nextafter(tp_,np.inf)
            v4 = np.stack([f(tm), f(t), f(tp_)])
            tol = 1.0/N + 1e-12
            ok_exact = np.abs(v[1]-rc) <= tol
            ok_br = (v.min(0)-tol <= rc) & (rc <= v.max(0)+tol)
            ok_br4 = (v4.min(0)-tol <= rc) & (rc <= v4.max(0)+tol)
            n+=len(rs)
            for i in range(len(rs)):
                if not ok_br[i]:
                    key=(m,sc,ec,'br4ok' if ok_br4[i] else 'br4bad', i)
                    bad.setdefault(key,[]).append((pos.tolist(),neg.tolist(),ep,en,rs[i],t[i],v[:,i].tolist(),N))
print(n,len(bad))
for k,v in sorted(bad.items()): print(k,len(v),v[0] if len(str(v[0]))<400 else str(v[0])[:400])
