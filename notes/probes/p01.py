from gen import *
from score_analysis import pointwise_cm
rng = np.random.default_rng(1)
bad=0; n=0
def ref(pos,neg,t,sc,ec,ep,en):
    cmpf = {('pos','pos'):lambda s:s>=t, ('pos','neg'):lambda s:s>t, ('neg','pos'):lambda s:s<=t, ('neg','neg'):lambda s:s<t}[(sc,ec)]
    tp = sum(bool(cmpf(s)) for s in pos); fn=len(pos)-tp
    fp = sum(bool(cmpf(s)) for s in neg); tn=len(neg)-fp
    return [[tp+ep,fn],[fp,tn+en]]
for trial in range(3000):
    pos,neg = gen_scores(rng)
    ep,en = easy(rng)
    allv = np.concatenate([pos,neg]).astype(float)
    ths = [-np.inf,np.inf, 0.0, rng.normal()]
    if len(allv):
        c = rng.choice(allv, 3); ths += list(c)+list(np.nextafter(c,np.inf))+list(np.nextafter(c,-np.inf))
    for sc,ec in CFG:
        s = Scores(pos,neg,nb_easy_pos=ep,nb_easy_neg=en,score_class=sc,equal_class=ec)
        m = s.cm(np.array(ths)).matrix
        for i,t in enumerate(ths):
            n+=1
            r = ref(pos,neg,t,sc,ec,ep,en)
            if m[i].tolist()!=r:
                bad+=1
                if bad<5: print('BAD',pos,neg,t,sc,ec,ep,en,m[i].tolist(),r)
        labels = np.concatenate([np.ones(len(pos)),np.zeros(len(neg))])
        pw = pointwise_cm(labels, np.concatenate([pos,neg]), np.array(ths), score_class=sc, equal_class=ec)
        sm = pw.sum(axis=0)
        sm[:,0,0]+=ep; sm[:,1,1]+=en
        if not np.array_equal(sm, m): bad+=1; print('PW BAD')
print(n,bad)
