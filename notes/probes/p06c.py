from gen import *
for base in [1.0, 3.0, 0.1, 2.5, -1.0, 1e-3]:
  for sc,ec in CFG:
    lo, hi = base, np.nextafter(base, np.inf)
    if sc=='pos': s = Scores([hi,hi+1],[lo,lo-1],score_class=sc,equal_class=ec)
    else: s = Scores([lo,lo-1],[hi,hi+1],score_class=sc,equal_class=ec)
    t,e = s.eer()
    print(base,sc,ec,repr(t),e,s.fpr(t),s.fnr(t))
