from gen import *
from score_analysis import roc_with_ci, BootstrapConfig
rng = np.random.default_rng(16)
bad={}; n=0
def rec(k,i): bad.setdefault(k,[]).append(i)
def agg(x, dxp, dyp):
    out=[]
    for i in range(len(x)):
        lo,hi = dyp[i,0],dyp[i,1]
        for j in range(len(x)):
            if dxp[j,0]<=x[i]<=dxp[j,1]:
                lo=min(lo,dyp[j,0]); hi=max(hi,dyp[j,1])
        out.append([lo,hi])
    return np.array(out)
ident = BootstrapConfig(nb_samples=3, sampling_method=lambda s: s, bootstrap_method='quantile')
for trial in range(400):
    pos,neg = gen_scores(rng,2,2,maxn=15); ep,en=easy(rng)
    if rng.random()<0.5: ep=en=0
    for sc,ec in CFG:
        s = Scores(pos,neg,nb_easy_pos=ep,nb_easy_neg=en,score_class=sc,equal_class=ec)
        alpha=float(rng.choice([0.05,0.1,0.5]))
        nbp = rng.choice([None,5,10]); nbp=None if nbp is None else int(nbp)
        for bm in ['quantile','bc','bca']:
            cfg = BootstrapConfig(nb_samples=3, sampling_method=lambda s: s, bootstrap_method=bm)
            try: r = roc_with_ci(s, nb_points=nbp, alpha=alpha, config=cfg)
            except Exception as e: rec(('exc',type(e).__name__,bm),(str(e),)); continue
            n+=1
            if np.isnan(r.fnr_ci).any() or np.isnan(r.fpr_ci).any(): rec(('nan',bm),(np.asarray(pos).tolist(),np.asarray(neg).tolist(),ep,en)); continue
            if np.any(r.fnr_ci[:,0]>r.fnr_ci[:,1]) or np.any(r.fpr_ci[:,0]>r.fpr_ci[:,1]): rec(('order',bm),())
            if r.fnr_ci.min()<0 or r.fnr_ci.max()>1 or r.fpr_ci.min()<0 or r.fpr_ci.max()>1: rec(('range',bm),())
            # closed form
            m_fnr = s.fnr(s.threshold_at_fpr(r.fpr)); m_fpr = s.fpr(s.threshold_at_fnr(r.fnr))
            def pw(p, m, N):
                ci = np.stack([m,m],axis=-1).astype(float)
                for i in range(len(p)):
                    if p[i]==0: ci[i]=[0, 1-alpha**(1/N)]
                    elif p[i]==1: ci[i]=[alpha**(1/N),1]
                return ci
            for variant,(NP,NN) in {'hard':(len(s.pos),len(s.neg)),'all':(s.nb_all_pos,s.nb_all_neg)}.items():
                fnr_ci = pw(r.fnr,m_fnr,NP); fpr_ci = pw(r.fpr,m_fpr,NN)
                fpr_band = agg(r.fnr, fnr_ci, fpr_ci); fnr_band = agg(r.fpr, fpr_ci, fnr_ci)
                ok = np.allclose(fpr_band,r.fpr_ci,atol=1e-12) and np.allclose(fnr_band,r.fnr_ci,atol=1e-12)
                if not ok: rec(('closed',variant,bm,ep>0,en>0),(np.asarray(pos).tolist(),np.asarray(neg).tolist(),ep,en,sc,ec,nbp,alpha))
print(n,len(bad))
for k,v in sorted(bad.items(), key=str): print(k,len(v),str(min(v,key=lambda x:len(str(x))))[:600])
