import sys; sys.path.insert(0,'/repo')
import numpy as np, warnings, math
warnings.simplefilter('ignore')
from score_analysis.utils import invert_pl_function
rng = np.random.default_rng(17)
bad={}; n=0
def rec(k,i): bad.setdefault(k,[]).append(i)
def f(x,y,s):
    return np.interp(s,x,y)
for trial in range(30000):
    N = int(rng.integers(2,12))
    kind = rng.integers(0,4)
    if kind==0: x = np.sort(rng.normal(0,1,N)); y = rng.normal(0,1,N)
    elif kind==1: x = np.arange(N).astype(float); y = rng.integers(0,4,N).astype(float)
    elif kind==2:
        x = np.sort(rng.integers(0,6,N)).astype(float); yv = rng.integers(0,4,7).astype(float); y = yv[x.astype(int)]  # dup x with equal y
    else: x = np.sort(rng.uniform(0,1,N)); y = np.round(rng.uniform(0,1,N),1)
    ts = np.concatenate([rng.choice(y,2), rng.uniform(y.min()-0.5,y.max()+0.5,3), [y.min()-1,y.max()+1, y.min(), y.max()]])
    res = invert_pl_function(x,y,ts)
    if len(res)!=len(ts): rec(('len',),(x,y))
    for t,s in zip(ts,res):
        n+=1
        s = np.asarray(s).ravel()
        has_sol = (y.min()<=t<=y.max())
        if s.ndim!=1 or len(s)<1: rec(('shape',kind),(x.tolist(),y.tolist(),t,s.tolist())); continue
        if not np.all(np.diff(s)>0): rec(('incr',kind),(x.tolist(),y.tolist(),t,s.tolist()))
        if s.min()<x[0] or s.max()>x[-1]: rec(('range',kind),(x.tolist(),y.tolist(),t,s.tolist()))
        if has_sol:
            # dup x: np.interp ambiguous only if y differ; equal y here
            err = np.abs(f(x,y,s)-t)
            if np.any(err>1e-9*max(1,np.abs(y).max())): rec(('sol',kind),(x.tolist(),y.tolist(),t,s.tolist(),err.tolist()))
            # completeness for strict crossings
            d = y-t
            for j in range(N-1):
                if d[j]*d[j+1]<0:
                    if not np.any((s>=x[j])&(s<=x[j+1])): rec(('complete',kind),(x.tolist(),y.tolist(),t,s.tolist(),j))
        else:
            if len(s)!=1: rec(('nosol_len',kind),(x.tolist(),y.tolist(),t,s.tolist()))
            else:
                best = np.min(np.abs(y-t))
                idx = np.where(x==s[0])[0]
                if len(idx)==0 or not np.any(np.abs(y[idx]-t)==best): rec(('closest',kind),(x.tolist(),y.tolist(),t,s.tolist()))
    r0 = invert_pl_function(x,y,ts[0])
    if not isinstance(r0,np.ndarray): rec(('scalar',),(type(r0),))
print(n,len(bad))
for k,v in sorted(bad.items(), key=str): print(k,len(v),str(min(v,key=lambda x:len(str(x))))[:600])
