from gen import *
rng = np.random.default_rng(3)
metrics = ['tpr','fnr','tnr','fpr','topr','tonr']
bad={}; n=0
def popn(s,m):
    return {'tpr':s.nb_all_pos,'fnr':s.nb_all_pos,'tnr':s.nb_all_neg,'fpr':s.nb_all_neg,'topr':s.nb_all_samples,'tonr':s.nb_all_samples}[m]
def rel(s,m):
    return {'tpr':s.pos,'fnr':s.pos,'tnr':s.neg,'fpr':s.neg}.get(m, np.sort(np.concatenate([s.pos,s.neg])))
def rec(key,info):
    bad.setdefault(key,[]).append(info)
for trial in range(1500):
    pos,neg = gen_scores(rng,1,1)
    ep,en = easy(rng)
    for sc,ec in CFG:
        s = Scores(pos,neg,nb_easy_pos=ep,nb_easy_neg=en,score_class=sc,equal_class=ec)
        for m in metrics:
            N = popn(s,m); f = getattr(s,m); th_at = getattr(s,'threshold_at_'+m)
            sc_arr = rel(s,m).astype(float)
            lo,hi = sorted(f(np.array([-np.inf,np.inf])))
            rs = np.sort(np.concatenate([rng.uniform(-0.1,1.1,6), rng.uniform(lo,hi,6), rng.integers(0,N+1,4)/N]))
            tl = th_at(rs,method='lower'); thh = th_at(rs,method='higher'); tlin = th_at(rs,method='linear')
            sent = [np.nextafter(sc_arr[0],-np.inf), np.nextafter(sc_arr[-1],np.inf)]
            n+=len(rs)
            for i,r in enumerate(rs):
                for nm,t in [('lower',tl[i]),('higher',thh[i])]:
                    if not (t in sc_arr or t in sent): rec((m,sc,ec,nm+'_notscore'),(r,t))
                if not f(tl[i]) <= f(thh[i]): rec((m,sc,ec,'order'),(pos.tolist(),neg.tolist(),ep,en,r,tl[i],thh[i],f(tl[i]),f(thh[i])))
                a,b = min(tl[i],thh[i]),max(tl[i],thh[i])
                eps4 = 4*np.spacing(max(abs(a),abs(b),1e-300))
                if not (a-eps4 <= tlin[i] <= b+eps4): rec((m,sc,ec,'between'),(r,tl[i],thh[i],tlin[i]))
                # convex combination
                interior = (lo < r < hi) and not (tl[i] in sent or thh[i] in sent)
                if interior:
                    fr = (r*N) % 1.0
                    exp = tl[i]*(1-fr)+thh[i]*fr
                    if abs(exp - tlin[i]) > 1e-9*max(1,abs(a),abs(b)) + 1e-9*(b-a)*N:
                        rec((m,sc,ec,'convex'),(pos.tolist(),neg.tolist(),ep,en,r,N,tl[i],thh[i],tlin[i],exp))
            # monotone in r
            for nm,t in [('lower',tl),('higher',thh),('linear',tlin)]:
                d = np.diff(t)
                tolv = 4*np.spacing(np.maximum(np.abs(t[1:]),np.abs(t[:-1])))
                if not (np.all(d>=-tolv) or np.all(d<=tolv)): rec((m,sc,ec,'mono_'+nm),(rs.tolist(),t.tolist()))
print(n,len(bad))
for k,v in sorted(bad.items()): print(k,len(v),str(v[0])[:600])
