from gen import *
from fractions import Fraction as F
rng = np.random.default_rng(9)
bad={}; n=0
def rec(key,info): bad.setdefault(key,[]).append(info)
def step_area(pos,neg,ep,en,sc,lower,upper):
    P=len(pos)+ep; N=len(neg)+en
    items=[(float(p),1) for p in pos]+[(float(q),0) for q in neg]
    items.sort(key=lambda z:z[0], reverse=(sc=='pos'))
    seq=[1]*ep+[z[1] for z in items]+[0]*en
    x=F(0);y=F(0);area=F(0);lo=F(lower);up=F(upper)
    for lab in seq:
        if lab==1: y+=F(1,P)
        else:
            a=max(x,lo); b=min(x+F(1,N),up)
            if b>a: area+=(b-a)*y
            x+=F(1,N)
    return area
for trial in range(2500):
    npos = int(rng.integers(1,14)); nneg=int(rng.integers(1,14))
    kind=rng.integers(0,3)
    if kind==0:
        allv = rng.permutation(npos+nneg).astype(float); pos,neg=allv[:npos],allv[npos:]
    elif kind==1:
        allv = rng.normal(0,1,npos+nneg); pos,neg=allv[:npos],allv[npos:]
    else: # within-class ties, no cross-class ties
        vals = rng.permutation(8).astype(float); pv,nv=vals[:4],vals[4:]
        pos=rng.choice(pv,npos); neg=rng.choice(nv,nneg)
    ep,en = easy(rng)
    P=npos+ep;N=nneg+en
    for sc,ec in CFG:
        s = Scores(pos,neg,nb_easy_pos=ep,nb_easy_neg=en,score_class=sc,equal_class=ec)
        cands=[0.,1.,rng.uniform(),rng.uniform(),rng.integers(0,N+1)/N,rng.integers(0,N+1)/N, rng.uniform(0,1.0/N), 1-rng.uniform(0,1.0/N)]
        lo,up = sorted(rng.choice(cands,2))
        a = s.auc(lo,up); n+=1
        r = float(step_area(pos.tolist(),neg.tolist(),ep,en,sc,lo,up))
        tol=1e-9
        if abs(a-r)>tol: rec((sc,ec,'partial',kind,ep>0,en>0),(pos.tolist(),neg.tolist(),ep,en,lo,up,a,r))
        if a>up-lo+tol: rec((sc,ec,'bound'),(a,lo,up))
        a2 = s.auc(lo,up,y_axis='fnr')
        if abs(a2-((up-lo)-a))>tol: rec((sc,ec,'ycomp'),(pos.tolist(),neg.tolist(),ep,en,lo,up,a,a2))
        a3 = s.auc(1-up,1-lo,x_axis='tnr')
        if abs(a3-a)>tol: rec((sc,ec,'xmirror',kind,ep>0,en>0),(pos.tolist(),neg.tolist(),ep,en,lo,up,a,a3))
        a4 = s.auc(x_axis='tpr',y_axis='fpr'); a0=s.auc()
        if abs(a4-(1-a0))>tol: rec((sc,ec,'swapaxes'),(pos.tolist(),neg.tolist(),ep,en,a0,a4))
        mid = rng.uniform(lo,up)
        if abs(s.auc(lo,mid)+s.auc(mid,up)-a)>tol: rec((sc,ec,'additive'),(pos.tolist(),neg.tolist(),ep,en,lo,mid,up))
print(n,len(bad))
for k,v in sorted(bad.items(), key=str): print(k,len(v),str(min(v,key=lambda x:len(str(x))))[:500])
