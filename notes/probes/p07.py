from gen import *
from fractions import Fraction as F
rng = np.random.default_rng(8)
bad={}; n=0
def rec(key,info): bad.setdefault(key,[]).append(info)
def mw(pos,neg,ep,en,sc):
    # P(pos ranked on positive side of neg) + 0.5 P(tie), easy beyond all
    P=len(pos)+ep; N=len(neg)+en
    wins=0; ties=0
    for p in pos:
        for q in neg:
            if p==q: ties+=1
            elif (p>q)==(sc=='pos'): wins+=1
    wins += ep*N + en*len(pos)  # easy pos beats all negs (incl easy negs); easy neg loses to all hard pos
    return (F(wins)+F(ties,2))/(P*N)
for trial in range(3000):
    pos,neg = gen_scores(rng,1,1,maxn=15)
    ep,en = easy(rng)
    for sc,ec in CFG:
        s = Scores(pos,neg,nb_easy_pos=ep,nb_easy_neg=en,score_class=sc,equal_class=ec)
        a = s.auc(); n+=1
        r = float(mw(np.asarray(pos).tolist(),np.asarray(neg).tolist(),ep,en,sc))
        if abs(a-r)>1e-9: rec((sc,ec,'full',ep>0,en>0),(np.asarray(pos).tolist(),np.asarray(neg).tolist(),ep,en,a,r))
print(n,len(bad))
for k,v in sorted(bad.items(), key=str): print(k,len(v),str(min(v,key=lambda x:len(str(x))))[:500])
