"""
Reachability monitor: counts entries (PY_START) of every function defined under
$VERIF_REPO/score_analysis, via sys.monitoring (3.12+). Used to show that the anchored
mechanisms of a property were actually executed; zero entries => inconclusive.
"""

from __future__ import annotations

import collections
import os
import sys

TOOL_ID = 4
_counts = collections.Counter()
_prefix = None
_active = False


def _on_start(code, offset):
    fn = code.co_filename
    if fn.startswith(_prefix):
        _counts[(fn[len(_prefix):], code.co_qualname)] += 1
        return None
    return sys.monitoring.DISABLE  # foreign code: never call back for it again


def start(repo_root: str):
    global _prefix, _active
    _prefix = os.path.join(os.path.realpath(repo_root), "score_analysis") + os.sep
    if _active:
        return
    mon = sys.monitoring
    try:
        mon.use_tool_id(TOOL_ID, "vmon-reach")
    except ValueError:
        pass
    mon.register_callback(TOOL_ID, mon.events.PY_START, _on_start)
    mon.set_events(TOOL_ID, mon.events.PY_START)
    _active = True


def stop():
    global _active
    if not _active:
        return
    mon = sys.monitoring
    mon.set_events(TOOL_ID, 0)
    mon.register_callback(TOOL_ID, mon.events.PY_START, None)
    try:
        mon.free_tool_id(TOOL_ID)
    except Exception:
        pass
    _active = False


def counts() -> dict:
    """{'scores.py:Scores.cm': n, ...}"""
    return {f"{f}:{q}": n for (f, q), n in sorted(_counts.items())}


def reset():
    _counts.clear()
