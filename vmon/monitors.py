"""
Call monitors on the public API of score_analysis (DESIGN.md §2.2). Each ``install_*``
wraps real functions in place through ``Session.wrap`` and judges every call the
library or a driver makes, including the library's calls to itself.
"""

from __future__ import annotations

import math

import numpy as np

from . import refmodel as R

# --------------------------------------------------------------------------------------
# helpers


def lib():
    import score_analysis  # noqa: F401  (imported from $VERIF_REPO by the runner)
    from score_analysis import scores as S

    return S


def cfg_of(s):
    return s.score_class.value, s.equal_class.value


def finite_arr(a):
    a = np.asarray(a)
    if a.dtype.kind not in "fiub":
        return False
    if a.dtype.kind == "f":
        return bool(np.all(np.isfinite(a)))
    return True


def src_lists(s):
    """Python lists of the scores the object was *constructed from* (unsorted snapshot)
    if the constructor monitor saw it, else of its current arrays."""
    snap = getattr(s, "_vmon_src", None)
    if snap is not None:
        return snap
    return np.asarray(s.pos).tolist(), np.asarray(s.neg).tolist()


def install_ctor_snapshot(sess):
    """Remembers the constructor inputs of every Scores object and checks the class
    invariant 'pos and neg ascending' (the binary search in cm relies on it)."""
    S = lib()

    def post(snap, args, kwargs, res):
        self = args[0]
        try:
            pos_in = kwargs["pos"] if "pos" in kwargs else args[1]
            neg_in = kwargs["neg"] if "neg" in kwargs else args[2]
        except IndexError:
            return
        p = np.asarray(pos_in)
        n = np.asarray(neg_in)
        if p.ndim != 1 or n.ndim != 1 or not finite_arr(p) or not finite_arr(n):
            sess.skip("M-ctor", "non-1d or non-finite")
            return
        self._vmon_src = (p.tolist(), n.tolist())
        claimed_sorted = bool(kwargs.get("is_sorted", False))
        asc = bool(np.all(self.pos[1:] >= self.pos[:-1])) and bool(np.all(self.neg[1:] >= self.neg[:-1]))
        if claimed_sorted and type(self).__name__ == "GroupScores":
            return  # GroupScores.__init__ sorts after super().__init__; judged by its own monitor
        if claimed_sorted and not asc and getattr(sess, "ctor_user_sorted_ok", False):
            sess.skip("M-ctor", "caller passed is_sorted=True with unsorted data")
            return
        sess.check(
            "M-ctor",
            asc,
            "Scores arrays not ascending after construction",
            lambda: {"pos": self.pos, "neg": self.neg, "is_sorted_arg": claimed_sorted},
            key="not-ascending",
        )

    sess.wrap(S.Scores, "__init__", "M-ctor", post)


# --------------------------------------------------------------------------------------
# M-cm


def judge_cm(sess, s, threshold, matrix, monitor="M-cm", max_thr=64, sig_extra=()):
    """Compares the integer matrix with counting by the documented decision rule."""
    thr = np.asarray(threshold)
    if thr.dtype.kind not in "fiub" or (thr.dtype.kind == "f" and np.any(np.isnan(thr))):
        sess.skip(monitor, "non-numeric or NaN threshold")
        return
    pos, neg = src_lists(s)
    if any(isinstance(v, float) and v != v for v in pos) or any(isinstance(v, float) and v != v for v in neg):
        sess.skip(monitor, "NaN score")
        return
    sc, ec = cfg_of(s)
    ep, en = int(s.nb_easy_pos), int(s.nb_easy_neg)
    m = np.asarray(matrix)
    if m.shape != (*thr.shape, 2, 2):
        sess.check(monitor, False, "cm shape", lambda: {"thr_shape": thr.shape, "matrix_shape": m.shape}, key="shape")
        return
    flat_t = thr.reshape(-1).tolist()
    flat_m = m.reshape(-1, 2, 2)
    idxs = range(len(flat_t))
    work = (len(pos) + len(neg) + 1) * len(flat_t)
    if len(flat_t) > max_thr or work > 40_000:
        k = max(2, min(max_thr, 40_000 // (len(pos) + len(neg) + 1)))
        if k < len(flat_t):
            # deterministic subsample that always keeps first and last
            step = max(1, len(flat_t) // k)
            idxs = sorted(set(list(range(0, len(flat_t), step)) + [len(flat_t) - 1]))
    sig = (sc, ec, ep > 0, en > 0, *sig_extra)
    P, N = len(pos) + ep, len(neg) + en
    for i in idxs:
        t = flat_t[i]
        ref = R.count_cm(pos, neg, t, sc, ec, ep, en)
        got = flat_m[i].tolist()
        ok = got == ref and got[0][0] + got[0][1] == P and got[1][0] + got[1][1] == N
        sess.check(
            monitor,
            ok,
            "confusion matrix differs from counting by the decision rule",
            lambda: {"pos": pos, "neg": neg, "easy": [ep, en], "cfg": [sc, ec], "threshold": t, "got": got, "expected": ref},
            sig=sig,
            key="count",
        )


def install_cm(sess, max_thr=64):
    S = lib()
    install_ctor_snapshot(sess)

    def post(snap, args, kwargs, res):
        self = args[0]
        thr = kwargs["threshold"] if "threshold" in kwargs else args[1]
        judge_cm(sess, self, thr, res.matrix, max_thr=max_thr)

    sess.wrap(S.Scores, "cm", "M-cm", post)
    # alias bound at class creation: Scores.confusion_matrix is the *original* function
    sess.wrap(S.Scores, "confusion_matrix", "M-cm", post)


def install_pointwise_cm(sess):
    import score_analysis
    S = lib()

    def post(snap, args, kwargs, res):
        names = ["labels", "scores", "threshold"]
        a = dict(zip(names, args))
        a.update(kwargs)
        labels = np.asarray(a["labels"])
        scores = np.asarray(a["scores"])
        thr = np.asarray(a["threshold"])
        sc = S.BinaryLabel(a.get("score_class", "pos")).value
        ec = S.BinaryLabel(a.get("equal_class", "pos")).value
        pos_label = a.get("pos_label", 1)
        if not finite_arr(scores) or thr.dtype.kind not in "fiub" or (thr.dtype.kind == "f" and np.any(np.isnan(thr))):
            sess.skip("M-pw", "non-finite input")
            return
        want_shape = (*scores.shape, *thr.shape, 2, 2)
        if not sess.check("M-pw", res.shape == want_shape and res.dtype == bool, "pointwise_cm shape/dtype",
                          lambda: {"got": res.shape, "want": want_shape, "dtype": str(res.dtype)}, key="pw-shape"):
            return
        f = R._CMP[(sc, ec)]
        sl = scores.reshape(-1).tolist()
        ll = labels.reshape(-1).tolist()
        tl = thr.reshape(-1).tolist()
        r = res.reshape(len(sl), len(tl), 2, 2)
        bad = None
        for i, (sv, lv) in enumerate(zip(sl, ll)):
            is_pos = lv == pos_label
            for j, t in enumerate(tl):
                top = f(sv, t)
                want = [[is_pos and top, is_pos and not top], [(not is_pos) and top, (not is_pos) and not top]]
                if r[i, j].tolist() != want:
                    bad = (sv, lv, t, r[i, j].tolist(), want)
                    break
            if bad:
                break
        sess.check("M-pw", bad is None, "pointwise_cm membership differs from the decision rule",
                   lambda: {"cfg": [sc, ec], "score_label_thr_got_want": bad}, sig=(sc, ec, "pw"), key="pw-member")

    sess.wrap(S, "pointwise_cm", "M-pw", post)
    # name bound at import in the package namespace
    if getattr(score_analysis, "pointwise_cm", None) is not None:
        sess.wrap(score_analysis, "pointwise_cm", "M-pw", post)
