"""
Call monitors on the public API of score_analysis (DESIGN.md §2.2). Each ``install_*``
wraps real functions in place through ``Session.wrap`` and judges every call the
library or a driver makes, including the library's calls to itself.
"""

from __future__ import annotations

import math

import numpy as np

from . import refmodel as R

# --------------------------------------------------------------------------------------
# helpers


def lib():
    import score_analysis  # noqa: F401  (imported from $VERIF_REPO by the runner)
    from score_analysis import scores as S

    return S


def lab(x):
    """'pos' / 'neg' of a label field, whether it holds a BinaryLabel member or (assigned after construction) a plain string."""
    return getattr(x, "value", x)


def cfg_of(s):
    return lab(s.score_class), lab(s.equal_class)


def finite_arr(a):
    a = np.asarray(a)
    if a.dtype.kind not in "fiub":
        return False
    if a.dtype.kind == "f":
        return bool(np.all(np.isfinite(a)))
    return True


def src_lists(s):
    """Python lists of the scores the object was *constructed from* (unsorted snapshot)
    if the constructor monitor saw it, else of its current arrays."""
    snap = getattr(s, "_vmon_src", None)
    held = getattr(s, "_vmon_arrs", None)
    if snap is not None and (held is None or (s.pos is held[0] and s.neg is held[1])):
        return snap
    # never seen by the constructor monitor, or its score arrays were replaced afterwards through the public attributes
    # (Scores.pos/neg, FraudScores.genuines/frauds setters): the current arrays are what it now consists of
    return np.asarray(s.pos).tolist(), np.asarray(s.neg).tolist()


def install_ctor_snapshot(sess):
    """Remembers the constructor inputs of every Scores object and checks the class
    invariant 'pos and neg ascending' (the binary search in cm relies on it)."""
    S = lib()

    def post(snap, args, kwargs, res):
        self = args[0]
        try:
            pos_in = kwargs["pos"] if "pos" in kwargs else args[1]
            neg_in = kwargs["neg"] if "neg" in kwargs else args[2]
        except IndexError:
            return
        p = np.asarray(pos_in)
        n = np.asarray(neg_in)
        if p.ndim != 1 or n.ndim != 1 or not finite_arr(p) or not finite_arr(n):
            sess.skip("M-ctor", "non-1d or non-finite")
            return
        self._vmon_src = (p.tolist(), n.tolist())
        self._vmon_arrs = (self.pos, self.neg)
        claimed_sorted = bool(kwargs.get("is_sorted", False))
        asc = bool(np.all(self.pos[1:] >= self.pos[:-1])) and bool(np.all(self.neg[1:] >= self.neg[:-1]))
        if claimed_sorted and type(self).__name__ == "GroupScores":
            return  # GroupScores.__init__ sorts after super().__init__; judged by its own monitor
        if claimed_sorted and not asc and getattr(sess, "ctor_user_sorted_ok", False):
            sess.skip("M-ctor", "caller passed is_sorted=True with unsorted data")
            return
        sess.check(
            "M-ctor",
            asc,
            "Scores arrays not ascending after construction",
            lambda: {"pos": self.pos, "neg": self.neg, "is_sorted_arg": claimed_sorted},
            key="not-ascending",
        )

    sess.wrap(S.Scores, "__init__", "M-ctor", post)


# --------------------------------------------------------------------------------------
# M-cm


def judge_cm(sess, s, threshold, matrix, monitor="M-cm", max_thr=64, sig_extra=()):
    """Compares the integer matrix with counting by the documented decision rule."""
    thr = np.asarray(threshold)
    if thr.dtype.kind not in "fiub" or (thr.dtype.kind == "f" and np.any(np.isnan(thr))):
        sess.skip(monitor, "non-numeric or NaN threshold")
        return
    pos, neg = src_lists(s)
    if any(isinstance(v, float) and v != v for v in pos) or any(isinstance(v, float) and v != v for v in neg):
        sess.skip(monitor, "NaN score")
        return
    sc, ec = cfg_of(s)
    ep, en = int(s.nb_easy_pos), int(s.nb_easy_neg)
    m = np.asarray(matrix)
    if m.shape != (*thr.shape, 2, 2):
        sess.check(monitor, False, "cm shape", lambda: {"thr_shape": thr.shape, "matrix_shape": m.shape}, key="shape")
        return
    flat_t = thr.reshape(-1).tolist()
    flat_m = m.reshape(-1, 2, 2)
    idxs = range(len(flat_t))
    work = (len(pos) + len(neg) + 1) * len(flat_t)
    if len(flat_t) > max_thr or work > 40_000:
        k = max(2, min(max_thr, 40_000 // (len(pos) + len(neg) + 1)))
        if k < len(flat_t):
            # deterministic subsample that always keeps first and last
            step = max(1, len(flat_t) // k)
            idxs = sorted(set(list(range(0, len(flat_t), step)) + [len(flat_t) - 1]))
    sig = (sc, ec, ep > 0, en > 0, *sig_extra)
    P, N = len(pos) + ep, len(neg) + en
    for i in idxs:
        t = flat_t[i]
        ref = R.count_cm(pos, neg, t, sc, ec, ep, en)
        got = flat_m[i].tolist()
        ok = got == ref and got[0][0] + got[0][1] == P and got[1][0] + got[1][1] == N
        sess.check(
            monitor,
            ok,
            "confusion matrix differs from counting by the decision rule",
            lambda: {"pos": pos, "neg": neg, "easy": [ep, en], "cfg": [sc, ec], "threshold": t, "got": got, "expected": ref},
            sig=sig,
            key="count",
        )


def install_cm(sess, max_thr=64):
    S = lib()
    install_ctor_snapshot(sess)

    def post(snap, args, kwargs, res):
        self = args[0]
        thr = kwargs["threshold"] if "threshold" in kwargs else args[1]
        judge_cm(sess, self, thr, res.matrix, max_thr=max_thr)

    sess.wrap(S.Scores, "cm", "M-cm", post)
    # alias bound at class creation: Scores.confusion_matrix is the *original* function
    sess.wrap(S.Scores, "confusion_matrix", "M-cm", post)


def install_pointwise_cm(sess):
    import score_analysis
    S = lib()

    def post(snap, args, kwargs, res):
        names = ["labels", "scores", "threshold"]
        a = dict(zip(names, args))
        a.update(kwargs)
        labels = np.asarray(a["labels"])
        scores = np.asarray(a["scores"])
        thr = np.asarray(a["threshold"])
        sc = S.BinaryLabel(a.get("score_class", "pos")).value
        ec = S.BinaryLabel(a.get("equal_class", "pos")).value
        pos_label = a.get("pos_label", 1)
        if not finite_arr(scores) or thr.dtype.kind not in "fiub" or (thr.dtype.kind == "f" and np.any(np.isnan(thr))):
            sess.skip("M-pw", "non-finite input")
            return
        want_shape = (*scores.shape, *thr.shape, 2, 2)
        if not sess.check("M-pw", res.shape == want_shape and res.dtype == bool, "pointwise_cm shape/dtype",
                          lambda: {"got": res.shape, "want": want_shape, "dtype": str(res.dtype)}, key="pw-shape"):
            return
        f = R._CMP[(sc, ec)]
        sl = scores.reshape(-1).tolist()
        ll = labels.reshape(-1).tolist()
        tl = thr.reshape(-1).tolist()
        r = res.reshape(len(sl), len(tl), 2, 2)
        bad = None
        for i, (sv, lv) in enumerate(zip(sl, ll)):
            is_pos = lv == pos_label
            for j, t in enumerate(tl):
                top = f(sv, t)
                want = [[is_pos and top, is_pos and not top], [(not is_pos) and top, (not is_pos) and not top]]
                if r[i, j].tolist() != want:
                    bad = (sv, lv, t, r[i, j].tolist(), want)
                    break
            if bad:
                break
        sess.check("M-pw", bad is None, "pointwise_cm membership differs from the decision rule",
                   lambda: {"cfg": [sc, ec], "score_label_thr_got_want": bad}, sig=(sc, ec, "pw"), key="pw-member")

    sess.wrap(S, "pointwise_cm", "M-pw", post)
    # name bound at import in the package namespace
    if getattr(score_analysis, "pointwise_cm", None) is not None:
        sess.wrap(score_analysis, "pointwise_cm", "M-pw", post)


# --------------------------------------------------------------------------------------
# M-thr: threshold setting (C02 round trip / coherence / monotonicity, C03 extremes)

THR_METRICS = {
    "tpr": "tpr", "fnr": "fnr", "tnr": "tnr", "fpr": "fpr", "topr": "topr", "tonr": "tonr",
    "tar": "tpr", "frr": "fnr", "trr": "tnr", "far": "fpr", "acceptance_rate": "topr", "rejection_rate": "tonr",
}


def population(s, metric):
    if metric in ("tpr", "fnr"):
        return s.nb_all_pos
    if metric in ("tnr", "fpr"):
        return s.nb_all_neg
    return s.nb_all_samples


def relevant_scores(s, metric):
    if metric in ("tpr", "fnr"):
        return np.asarray(s.pos, dtype=float)
    if metric in ("tnr", "fpr"):
        return np.asarray(s.neg, dtype=float)
    return np.sort(np.concatenate([np.asarray(s.pos, dtype=float), np.asarray(s.neg, dtype=float)]))


def nudge(t, k, direction):
    t = np.array(t, dtype=float, copy=True)
    for _ in range(k):
        t = np.nextafter(t, direction)
    return t


def nearest_dist(rel_sorted, t):
    j = np.searchsorted(rel_sorted, t)
    left = rel_sorted[np.clip(j - 1, 0, len(rel_sorted) - 1)]
    right = rel_sorted[np.clip(j, 0, len(rel_sorted) - 1)]
    return np.minimum(np.abs(t - left), np.abs(t - right))


def target_class(r, N, lo, hi):
    if r < 0:
        return "<0"
    if r == 0:
        return "0"
    if r == 1:
        return "1"
    if r > 1:
        return ">1"
    if r < lo or r > hi:
        return "unachievable"
    x = r * N
    return "grid" if abs(x - round(x)) < 1e-9 else "offgrid"


def _tclasses(r, N, lo, hi):
    """Vectorised target_class."""
    x = r * N
    out = np.where(np.abs(x - np.round(x)) < 1e-9, "grid", "offgrid").astype(object)
    out[(r < lo) | (r > hi)] = "unachievable"
    out[r < 0] = "<0"
    out[r == 0] = "0"
    out[r == 1] = "1"
    out[r > 1] = ">1"
    return out


def _bulk(sess, monitor, ok, what, key, sig, tcs, witness):
    """Records len(ok) oracle decisions; builds witnesses only for the failures."""
    ok = np.asarray(ok, dtype=bool)
    n_ok = int(ok.sum())
    m = sess.mon(monitor)
    m.in_scope += n_ok
    m.held += n_ok
    sess.facet_counts[(monitor, key)] += n_ok
    if tcs is not None:
        u, c = np.unique(tcs.astype(str), return_counts=True)
        for a, b in zip(u.tolist(), c.tolist()):
            sess.sig_counts[sig + (a,)] += b
    else:
        sess.sig_counts[sig] += len(ok)
    if n_ok != len(ok):
        for i in np.nonzero(~ok)[0].tolist():
            sess.check(monitor, False, what, lambda i=i: witness(i), key=key)


def judge_thr(sess, s, name, target, method, res, facets, monitor="M-thr", max_targets=48):
    metric = THR_METRICS[name]
    rel = relevant_scores(s, metric)
    tgt = np.asarray(target)
    if len(rel) == 0:
        sess.skip(monitor, "empty relevant class")
        return
    if tgt.dtype.kind not in "fiub" or tgt.size == 0:
        sess.skip(monitor, "non-numeric or empty target")
        return
    tgt = tgt.astype(float)
    if np.any(np.isnan(tgt)) or not np.all(np.isfinite(rel)) or np.abs(rel).max() > 1e9:
        sess.skip(monitor, "NaN target / non-finite or huge scores")
        return
    if method not in ("linear", "lower", "higher"):
        sess.skip(monitor, "invalid method")
        return
    thr = np.asarray(res, dtype=float)
    if thr.shape != tgt.shape:
        sess.check(monitor, False, "threshold shape differs from target shape",
                   lambda: {"target_shape": tgt.shape, "result_shape": thr.shape}, key="thr-shape")
        return
    r = tgt.reshape(-1)
    t = thr.reshape(-1)
    if len(r) > max_targets:
        idx = np.unique(np.linspace(0, len(r) - 1, max_targets).astype(int))
        r, t = r[idx], t[idx]
    f = getattr(s, metric)
    N = population(s, metric)
    ends = np.asarray(f(np.array([-np.inf, np.inf])), dtype=float)
    lo, hi = float(ends.min()), float(ends.max())
    sc, ec = cfg_of(s)
    ties = len(np.unique(rel)) < len(rel)
    sig = (metric, sc, ec, method, s.nb_easy_pos > 0, s.nb_easy_neg > 0, "ties" if ties else "tiefree")
    tol = 1.0 / N + 1e-12
    m_t = np.atleast_1d(np.asarray(f(t), dtype=float))
    tcs = _tclasses(r, N, lo, hi)

    def base(i):
        pos, neg = src_lists(s)
        return {"metric": name, "method": method, "cfg": [sc, ec], "easy": [int(s.nb_easy_pos), int(s.nb_easy_neg)],
                "pos": pos, "neg": neg, "target": float(r[i]), "threshold": float(t[i]), "metric_at_threshold": float(m_t[i]),
                "achievable": [lo, hi], "N": int(N)}

    if "extreme" in facets:
        ext = (r <= 0.0) | (r >= 1.0)
        if ext.any():
            want = np.where(r <= 0.0, lo, hi)
            e = np.nonzero(ext)[0]
            _bulk(sess, monitor, (m_t == want)[e], "extreme target not honoured exactly", "extreme", sig, tcs[e],
                  lambda k: dict(base(e[k]), expected_metric=float(want[e[k]])))
    if "roundtrip" in facets and method == "linear":
        rc = np.clip(r, lo, hi)
        m_lo = np.atleast_1d(np.asarray(f(nudge(t, 4, -np.inf)), dtype=float))
        m_hi = np.atleast_1d(np.asarray(f(nudge(t, 4, np.inf)), dtype=float))
        vmin = np.minimum(np.minimum(m_lo, m_hi), m_t)
        vmax = np.maximum(np.maximum(m_lo, m_hi), m_t)
        ok_br = (vmin - tol <= rc) & (rc <= vmax + tol)
        _bulk(sess, monitor, ok_br, "metric around the returned threshold does not bracket the (clipped) target within one sample",
              "roundtrip-bracket", sig, tcs,
              lambda i: dict(base(i), clipped_target=float(rc[i]), metric_4ulp_below=float(m_lo[i]), metric_4ulp_above=float(m_hi[i])))
        if not ties:
            far = nearest_dist(rel, t) > 4 * np.spacing(np.maximum(np.abs(t), 1e-300))
            e = np.nonzero(far)[0]
            if len(e):
                _bulk(sess, monitor, (np.abs(m_t - rc) <= tol)[e],
                      "tie-free: metric at the returned threshold is more than one sample from the target", "roundtrip-exact", sig, tcs[e],
                      lambda k: dict(base(e[k]), clipped_target=float(rc[e[k]])))
    if "coherence" in facets and method == "linear":
        th_at = getattr(s, "threshold_at_" + metric)
        tl = np.atleast_1d(np.asarray(th_at(r, method="lower"), dtype=float))
        th = np.atleast_1d(np.asarray(th_at(r, method="higher"), dtype=float))
        sent_lo = np.nextafter(rel[0], -np.inf)
        sent_hi = np.nextafter(rel[-1], np.inf)
        m_l = np.atleast_1d(np.asarray(f(tl), dtype=float))
        m_h = np.atleast_1d(np.asarray(f(th), dtype=float))

        def coh(i, **kw):
            return dict(base(i), t_lower=float(tl[i]), t_higher=float(th[i]), m_lower=float(m_l[i]), m_higher=float(m_h[i]), **kw)

        for nm, tv in (("lower", tl), ("higher", th)):
            is_score = (nearest_dist(rel, tv) == 0) | (tv == sent_lo) | (tv == sent_hi)
            _bulk(sess, monitor, is_score, f"'{nm}' threshold is neither a sample score nor the sentinel", "coh-score-" + nm, sig, None, coh)
        _bulk(sess, monitor, m_l <= m_h, "metric(lower) > metric(higher)", "coh-order", sig, tcs, coh)
        a = np.minimum(tl, th)
        b = np.maximum(tl, th)
        eps4 = 4 * np.spacing(np.maximum(np.maximum(np.abs(a), np.abs(b)), 1e-300))
        _bulk(sess, monitor, (a - eps4 <= t) & (t <= b + eps4), "'linear' threshold not between 'lower' and 'higher'", "coh-between", sig, None, coh)
        sentinel = (tl == sent_lo) | (tl == sent_hi) | (th == sent_lo) | (th == sent_hi)
        interior = (lo < r) & (r < hi) & ~sentinel & (b > a)
        e = np.nonzero(interior)[0]
        if len(e):
            fr = (r[e] * N) % 1.0
            w = (t[e] - tl[e]) / (th[e] - tl[e])  # implied weight on 'higher'
            d = np.abs(w - fr)
            d = np.minimum(d, 1.0 - d)  # circular: at grid targets lower/higher flip legitimately
            wtol = 1e-9 * N + 16 * np.spacing(np.maximum(np.maximum(np.abs(a[e]), np.abs(b[e])), 1e-300)) / (b[e] - a[e])
            _bulk(sess, monitor, d <= wtol, "'linear' is not the convex combination of lower/higher weighted by frac(r*N)", "coh-convex", sig, tcs[e],
                  lambda k: coh(e[k], implied_weight=float(w[k]), frac_rN=float(fr[k])))
    if "monotone" in facets and len(r) >= 2:
        order = np.argsort(r, kind="stable")
        ts = t[order]
        d = np.diff(ts)
        tolv = 4 * np.spacing(np.maximum(np.maximum(np.abs(ts[1:]), np.abs(ts[:-1])), 1e-300))
        ok = bool(np.all(d >= -tolv) or np.all(d <= tolv))
        sess.check(monitor, ok, "threshold is not a monotone function of the target",
                   lambda: dict(base(0), targets_sorted=r[order], thresholds=ts), sig=sig, key="monotone-" + method)


def install_thr(sess, facets, max_targets=48):
    S = lib()
    install_ctor_snapshot(sess)

    def make_post(name):
        def post(snap, args, kwargs, res):
            self = args[0]
            kw = dict(kwargs)
            method = kw.pop("method", "linear")
            if len(args) > 1:
                target = args[1]
            elif kw:
                target = next(iter(kw.values()))
            else:
                return
            judge_thr(sess, self, name, target, method, res, facets, max_targets=max_targets)

        return post

    for name in THR_METRICS:
        sess.wrap(S.Scores, "threshold_at_" + name, "M-thr", make_post(name))


def oracle_scope_ctx():
    """Context manager for drivers that need library calls which must not be judged."""
    from . import attach

    return attach.oracle_scope()


# --------------------------------------------------------------------------------------
# M-eer


def tie_free(s):
    allv = np.concatenate([np.asarray(s.pos, dtype=float), np.asarray(s.neg, dtype=float)])
    return len(np.unique(allv)) == len(allv)


def moderate_magnitude(s):
    """C06 quantifies the crossing clauses over 'finite scores of moderate magnitude': no subnormal-range or near-overflow values."""
    v = np.abs(np.concatenate([np.asarray(s.pos, dtype=float), np.asarray(s.neg, dtype=float)]))
    nz = v[v > 0]
    return bool(nz.size == 0 or (nz.min() >= 1e-150 and nz.max() <= 1e150))


def install_eer(sess):
    S = lib()
    install_ctor_snapshot(sess)

    def post(snap, args, kwargs, res):
        s = args[0]
        if len(s.pos) == 0 or len(s.neg) == 0 or not finite_arr(s.pos) or not finite_arr(s.neg):
            sess.skip("M-eer", "empty class or non-finite")
            return
        t, e = res
        t = float(t)
        e = float(e)
        fpr = float(s.fpr(t))
        fnr = float(s.fnr(t))
        sc, ec = cfg_of(s)
        tf = tie_free(s)
        sig = (sc, ec, s.nb_easy_pos > 0, s.nb_easy_neg > 0, "tiefree" if tf else "ties")

        def w():
            pos, neg = src_lists(s)
            return {"pos": pos, "neg": neg, "easy": [int(s.nb_easy_pos), int(s.nb_easy_neg)], "cfg": [sc, ec],
                    "threshold": t, "eer": e, "fpr_at_t": fpr, "fnr_at_t": fnr}

        if e == 0.0:
            sess.check("M-eer", fpr == 0.0 and fnr == 0.0, "EER of 0 reported at a threshold with errors", w, sig=sig + ("zero",), key="eer-zero")
        if not tf:
            sess.skip("M-eer", "ties: crossing clauses not claimed")
            return
        if not moderate_magnitude(s):
            sess.skip("M-eer", "magnitude near the float range limits: only the zero-EER clause is claimed")
            return
        sess.check("M-eer", 0.0 <= e <= 1.0, "EER outside [0,1]", w, sig=sig, key="eer-range")
        ok_fpr = abs(fpr - e) <= 1.0 / s.nb_all_neg + 1e-9
        ok_fnr = abs(fnr - e) <= 1.0 / s.nb_all_pos + 1e-9
        if not (ok_fpr and ok_fnr):
            # The threshold is threshold_at_fpr(e), an interpolation between two scores. When those are only a few ulp apart the
            # result rounds onto a score, and a sample *at* the threshold changes sides (C02 states this ambiguity of threshold
            # setting: "compared up to a few ulp"). Only then - a score within 4 ulp of t - the clause is read at t +- a few ulp.
            allv = np.concatenate([np.asarray(s.pos, dtype=float), np.asarray(s.neg, dtype=float)])
            if np.any(np.abs(allv - t) <= 4 * np.spacing(abs(t))):
                cands = [t]
                for d_ in (np.inf, -np.inf):
                    v = t
                    for _ in range(4):
                        v = float(np.nextafter(v, d_))
                        cands.append(v)
                for v in cands:
                    if abs(float(s.fpr(v)) - e) <= 1.0 / s.nb_all_neg + 1e-9 and abs(float(s.fnr(v)) - e) <= 1.0 / s.nb_all_pos + 1e-9:
                        ok_fpr = ok_fnr = True
                        sig = sig + ("ulp-bracket",)
                        break
        sess.check("M-eer", ok_fpr, "FPR at the EER threshold is more than one sample from the EER", w, sig=sig, key="eer-fpr")
        sess.check("M-eer", ok_fnr, "FNR at the EER threshold is more than one sample from the EER", w, sig=sig, key="eer-fnr")
        sess.check("M-eer", e <= min(s.hard_pos_ratio, s.hard_neg_ratio) + 1e-12, "EER exceeds the smaller hard-sample fraction", w, sig=sig, key="eer-cap")

    def on_exc(snap, args, kwargs, exc):
        s = args[0]
        if len(s.pos) == 0 or len(s.neg) == 0 or not finite_arr(s.pos) or not finite_arr(s.neg):
            sess.skip("M-eer", "empty class or non-finite")
            return
        if not moderate_magnitude(s):
            sess.skip("M-eer", "magnitude near the float range limits: only the zero-EER clause is claimed")
            return
        pos, neg = src_lists(s)
        sess.check("M-eer", False, "eer() raised on an in-scope object",
                   lambda: {"pos": pos, "neg": neg, "easy": [int(s.nb_easy_pos), int(s.nb_easy_neg)], "cfg": list(cfg_of(s)), "exc": repr(exc)},
                   key="eer-raise")

    sess.wrap(S.Scores, "eer", "M-eer", post, on_exc=on_exc)


def close_thr(a, b, span):
    a = np.asarray(a, dtype=float)
    b = np.asarray(b, dtype=float)
    with np.errstate(all="ignore"):  # equal infinities are equal; inf - inf would be NaN
        fin = np.where(np.isfinite(a) | np.isfinite(b), np.maximum(np.abs(a), np.abs(b)), 1.0)
        return bool(np.all((a == b) | (np.abs(a - b) <= 8 * np.spacing(np.maximum(np.where(np.isfinite(fin), fin, 1.0), 1e-300)) + 1e-9 * span)))


# --------------------------------------------------------------------------------------
# M-auc


def install_auc(sess, max_pairs=6000):
    S = lib()
    install_ctor_snapshot(sess)

    def post(snap, args, kwargs, res):
        s = args[0]
        names = ["lower", "upper"]
        a = {"lower": 0.0, "upper": 1.0, "x_axis": "fpr", "y_axis": "tpr"}
        a.update(dict(zip(names, args[1:])))
        a.update(kwargs)
        lower, upper, xa, ya = float(a["lower"]), float(a["upper"]), a["x_axis"], a["y_axis"]
        # a class is non-empty when it has samples, scored or easy: a class of easy samples only still ranks beyond every scored sample
        if len(s.pos) + int(s.nb_easy_pos) == 0 or len(s.neg) + int(s.nb_easy_neg) == 0 or len(s.pos) + len(s.neg) == 0 or not finite_arr(s.pos) or not finite_arr(s.neg):
            sess.skip("M-auc", "empty class or non-finite")
            return
        if not (0.0 <= lower <= upper <= 1.0):
            sess.skip("M-auc", "limits outside 0<=lower<=upper<=1")
            return
        if len(s.pos) * len(s.neg) > max_pairs:
            a_ = {"lower": 0.0, "upper": 1.0, "x_axis": "fpr", "y_axis": "tpr"}
            a_.update(dict(zip(["lower", "upper"], args[1:])))
            a_.update(kwargs)
            if (float(a_["lower"]), float(a_["upper"]), a_["x_axis"], a_["y_axis"]) == (0.0, 1.0, "fpr", "tpr"):
                # large evaluation sets: the full default-axes AUC against the Mann-Whitney statistic counted exactly by binary search
                exp_ = float(R.mann_whitney_large(np.asarray(s.pos), np.asarray(s.neg), int(s.nb_easy_pos), int(s.nb_easy_neg), cfg_of(s)[0]))
                got_ = float(res)
                sess.check("M-auc", abs(got_ - exp_) <= 1e-9, "full AUC of a large evaluation set differs from the Mann-Whitney statistic",
                           lambda: {"nb_pos": len(s.pos), "nb_neg": len(s.neg), "easy": [int(s.nb_easy_pos), int(s.nb_easy_neg)], "cfg": list(cfg_of(s)), "got": got_, "expected": exp_,
                                    "pos": np.asarray(s.pos), "neg": np.asarray(s.neg)}, sig=(cfg_of(s), "large"), key="auc-full-large")
                return
            sess.skip("M-auc", "too large for the exact reference")
            return
        pos, neg = np.asarray(s.pos).tolist(), np.asarray(s.neg).tolist()
        ep, en = int(s.nb_easy_pos), int(s.nb_easy_neg)
        sc, ec = cfg_of(s)
        full = lower == 0.0 and upper == 1.0
        xties = bool(set(pos) & set(neg))
        combo = (xa, ya)
        sig = (sc, ec, ep > 0, en > 0, "full" if full else "partial", "xties" if xties else "-", xa, ya)
        got = float(res)

        def w(expected):
            return lambda: {"pos": pos, "neg": neg, "easy": [ep, en], "cfg": [sc, ec], "lower": lower, "upper": upper,
                            "x_axis": xa, "y_axis": ya, "got": got, "expected": expected}

        alias = {"far": "fpr", "tar": "tpr", "frr": "fnr", "trr": "tnr"}
        combo = (alias.get(xa, xa), alias.get(ya, ya))
        if full and combo in (("fpr", "tpr"), ("tpr", "fpr"), ("fpr", "fnr"), ("tnr", "tpr")):
            mw = float(R.mann_whitney(pos, neg, ep, en, sc))
            exp = {("fpr", "tpr"): mw, ("tpr", "fpr"): 1.0 - mw, ("fpr", "fnr"): 1.0 - mw, ("tnr", "tpr"): mw}[combo]
            sess.check("M-auc", abs(got - exp) <= 1e-9, "full AUC differs from the Mann-Whitney statistic", w(exp), sig=sig, key="auc-full")
            return
        if xties:
            sess.skip("M-auc", "partial AUC with cross-class ties not claimed")
            return
        if combo == ("fpr", "tpr"):
            exp = float(R.step_area(pos, neg, ep, en, sc, lower, upper))
        elif combo == ("fpr", "fnr"):
            # (the floor: the limits and grid points are floats, so a width may be off by an ulp of 1 - times an FNR of at most nb_hard_pos/P)
            # exact, and judged relative to its own size: beside billions of easy positives every FNR value is of the order 1e-9, and
            # an area of that size is still a ratio of counts (an FNR obtained as 1 - TPR would only be good to 1e-16 *absolutely*)
            from fractions import Fraction as _F

            exact = (_F(upper) - _F(lower)) - R.step_area(pos, neg, ep, en, sc, lower, upper)
            exp = float(exact)
            sess.check("M-auc", abs(got - exp) <= 1e-9 * abs(exp) + 8e-16 * (len(pos) / (len(pos) + ep)), "partial AUC (FNR over FPR) differs from the exact step-ROC area, relative to its size", w(exp), sig=sig, key="auc-partial-rel")
        elif combo == ("tnr", "tpr"):
            exp = float(R.step_area(pos, neg, ep, en, sc, 1.0 - upper, 1.0 - lower))
        else:
            sess.skip("M-auc", "axis combination without a reference")
            return
        sess.check("M-auc", abs(got - exp) <= 1e-9, "partial AUC differs from the exact step-ROC area", w(exp), sig=sig, key="auc-partial")
        sess.check("M-auc", got <= (upper - lower) + 1e-9, "partial AUC exceeds upper-lower", w(upper - lower), sig=sig, key="auc-bound")

    sess.wrap(S.Scores, "auc", "M-auc", post)


# --------------------------------------------------------------------------------------
# M-bci: utils.bootstrap_ci against the stdlib reference


def bci_reference(theta, theta_hat, alpha, method):
    """Reference limits for every metric component; returns array of shape Y+A+(2,)."""
    theta = np.asarray(theta)
    Y = theta.shape[1:]
    alpha_arr = np.asarray(alpha, dtype=float)
    A = alpha_arr.shape
    cols = theta.reshape(theta.shape[0], -1).astype(float)
    that = None if theta_hat is None else np.broadcast_to(np.asarray(theta_hat, dtype=float), Y).reshape(-1)
    out = np.empty((cols.shape[1], alpha_arr.size, 2))
    for j in range(cols.shape[1]):
        col = cols[:, j].tolist()
        for k, al in enumerate(alpha_arr.reshape(-1).tolist()):
            out[j, k] = R.bootstrap_ci(col, None if that is None else float(that[j]), al, method)
    return out.reshape(Y + A + (2,))


def bci_tolerance(theta, expected):
    fin = np.asarray(theta, dtype=float)
    fin = fin[np.isfinite(fin)]
    rng_ = float(fin.max() - fin.min()) if fin.size else 0.0
    n = np.asarray(theta).shape[0]
    mag = float(np.abs(fin).max()) if fin.size else 0.0  # relative to the replicates' own magnitude (rates of 1e-5 are data, too)
    base = 1e-9 * np.maximum(mag if mag > 0 else 1.0, np.abs(expected)) + 4e-14 * n * rng_
    th_ = np.asarray(theta)
    if th_.dtype.kind == "f" and th_.dtype.itemsize < 8:
        # single/half-precision replicates: the library's bc/bca terms are formed in that precision, which moves the interpolated limits by
        # a corresponding fraction of the replicate range (a limit on the wrong replicate is a whole grid step, far above this)
        base = base + 512 * float(np.finfo(th_.dtype).eps) * max(rng_, mag)
    return base


def install_bci(sess, keep=False):
    sess.bci_log = []
    sess.bci_keep = keep
    import importlib
    import sys

    importlib.import_module("score_analysis.experimental.roc_ci")
    roc_ci_mod = sys.modules["score_analysis.experimental.roc_ci"]
    showbias_mod = sys.modules["score_analysis.showbias"]  # the package attribute 'showbias' is the function
    U = sys.modules["score_analysis.utils"]

    def post(snap, args, kwargs, res):
        a = {"theta_hat": None, "alpha": 0.05, "method": "quantile"}
        a.update(dict(zip(["theta", "theta_hat", "alpha"], args)))
        a.update(kwargs)
        theta = np.asarray(a["theta"])
        method = a["method"]
        alpha = np.asarray(a["alpha"], dtype=float)
        if sess.bci_keep and len(sess.bci_log) < 100_000:
            sess.bci_log.append({"theta": theta, "theta_hat": a["theta_hat"], "alpha": a["alpha"], "method": method, "result": res})
        if theta.ndim < 1 or theta.shape[0] < 1 or theta.dtype.kind not in "fiub" or theta.size == 0:
            sess.skip("M-bci", "no replicates / non-numeric / zero-size metric")
            return
        if alpha.size == 0 or np.any(~((alpha > 0) & (alpha < 1))):
            sess.skip("M-bci", "alpha outside (0,1) or empty")
            return
        if method not in ("quantile", "bc", "bca"):
            sess.skip("M-bci", "unknown method")
            return
        if method != "quantile" and alpha.ndim != 0:
            sess.skip("M-bci", "array alpha with bc/bca (only claimed for quantile)")
            return
        cols = theta.reshape(theta.shape[0], -1).astype(float)
        if np.any(np.isinf(cols)):
            sess.skip("M-bci", "infinite replicate")
            return
        if method != "quantile":
            th = np.asarray(a["theta_hat"], dtype=float)
            if np.any(~np.isfinite(th)):
                sess.skip("M-bci", "non-finite estimate")
                return
        want_shape = theta.shape[1:] + alpha.shape + (2,)
        sig = (method, "N=%d" % min(theta.shape[0], 999) if theta.shape[0] <= 3 else "N>3", theta.dtype.kind, "Y%d" % (theta.ndim - 1), "A%d" % alpha.ndim,
               "nan" if np.isnan(cols).any() else "-")
        res_arr = np.asarray(res)
        if not sess.check("M-bci", res_arr.shape == want_shape, "bootstrap_ci result shape", lambda: {"got": res_arr.shape, "want": want_shape, "method": method}, sig=sig, key="bci-shape"):
            return
        exp = bci_reference(theta, a["theta_hat"], alpha, method)
        tol = bci_tolerance(theta, exp)
        near_pole = np.isnan(exp) & ~np.isnan(res_arr)
        ok = (np.abs(res_arr - exp) <= tol) | (np.isnan(exp) & np.isnan(res_arr)) | near_pole
        sess.check("M-bci", bool(np.all(ok)), "bootstrap_ci differs from the documented formula",
                   lambda: {"method": method, "theta": theta, "theta_hat": a["theta_hat"], "alpha": alpha, "got": res_arr, "expected": exp}, sig=sig, key="bci-formula-" + method)

    def on_exc(snap, args, kwargs, exc):
        a = {"theta_hat": None, "alpha": 0.05, "method": "quantile"}
        a.update(dict(zip(["theta", "theta_hat", "alpha"], args)))
        a.update(kwargs)
        try:
            theta = np.asarray(a["theta"])
            alpha = np.asarray(a["alpha"], dtype=float)
            ok_in = (theta.ndim >= 1 and theta.shape[0] >= 1 and theta.dtype.kind in "fiub" and theta.size > 0 and alpha.size > 0
                     and bool(np.all((alpha > 0) & (alpha < 1))) and a["method"] in ("quantile", "bc", "bca")
                     and (a["method"] == "quantile" or (alpha.ndim == 0 and a["theta_hat"] is not None
                                                         and np.broadcast_shapes(np.shape(a["theta_hat"]), theta.shape[1:]) == theta.shape[1:])))
        except Exception:
            ok_in = False
        if not ok_in:
            sess.skip("M-bci", "raised on out-of-scope input")
            return
        sess.check("M-bci", False, "bootstrap_ci raised on in-scope input",
                   lambda: {"method": a["method"], "theta": theta, "theta_hat": a["theta_hat"], "alpha": alpha, "exc": repr(exc)}, key="bci-raise")

    sess.wrap(U, "bootstrap_ci", "M-bci", post, on_exc=on_exc)
    # names bound at import time
    sess.wrap(showbias_mod, "get_bootstrap_ci", "M-bci", post, on_exc=on_exc)
    sess.wrap(roc_ci_mod, "bootstrap_ci", "M-bci", post, on_exc=on_exc)


# --------------------------------------------------------------------------------------
# M-bs: bootstrap samples (C11 well-formedness, C12 group labels) + recording for C14/C16/C18


def resolved_method(s, config):
    """The sampling method the documentation prescribes; None where doc and code may
    legitimately differ (dynamic with a class of exactly 100 scores)."""
    m = config.sampling_method
    if m != "dynamic":
        return m
    is_group = hasattr(s, "pos_groups")
    if is_group and config.stratified_sampling == "by_group":
        return "replacement"
    if config.smoothing and not is_group:
        return "replacement"
    lo = min(len(s.pos), len(s.neg))
    if lo < 100:
        return "replacement"
    if lo == 100:
        return None
    return "single_pass"


def _multiset_included(sample, source):
    import collections

    c = collections.Counter(source)
    for v in sample:
        c[v] -= 1
        if c[v] < 0:
            return False
    return True


def judge_sample(sess, s, config, b, facets, monitor="M-bs"):
    method = resolved_method(s, config)
    if callable(config.sampling_method):
        sess.skip(monitor, "custom sampler")
        return
    if not finite_arr(s.pos) or not finite_arr(s.neg):
        sess.skip(monitor, "non-finite source")
        return
    strat = config.stratified_sampling
    is_group = hasattr(s, "pos_groups")
    sc, ec = cfg_of(s)
    sig = (type(s).__name__, config.sampling_method, method, strat, bool(config.smoothing), sc, ec,
           "big" if min(len(s.pos), len(s.neg)) >= 100 else "small", s.nb_easy_pos > 0, s.nb_easy_neg > 0)

    def w(**kw):
        d = {"source_pos": np.asarray(s.pos), "source_neg": np.asarray(s.neg), "source_easy": [int(s.nb_easy_pos), int(s.nb_easy_neg)],
             "cfg": [sc, ec], "sampling_method": str(config.sampling_method), "stratified": strat, "smoothing": bool(config.smoothing), "ratio": config.ratio,
             "sample_pos": np.asarray(b.pos), "sample_neg": np.asarray(b.neg), "sample_easy": [int(b.nb_easy_pos), int(b.nb_easy_neg)]}
        if is_group:
            d.update(source_pos_groups=[str(x) for x in s.pos_groups], source_neg_groups=[str(x) for x in s.neg_groups],
                     sample_pos_groups=[str(x) for x in b.pos_groups], sample_neg_groups=[str(x) for x in b.neg_groups])
        d.update(kw)
        return lambda: d

    C = lambda ok, what, key: sess.check(monitor, ok, what, w(), sig=sig, key=key)  # noqa: E731
    if "c11" in facets:
        C(cfg_of(b) == (sc, ec), "sample does not keep score_class/equal_class", "bs-cfg")
        C(b.nb_easy_pos >= 0 and b.nb_easy_neg >= 0 and int(b.nb_easy_pos) == b.nb_easy_pos and int(b.nb_easy_neg) == b.nb_easy_neg,
          "sample has a negative or non-integer easy-sample count", "bs-easy-count")
        bp, bn = np.asarray(b.pos), np.asarray(b.neg)
        C(bool(np.all(bp[1:] >= bp[:-1])) and bool(np.all(bn[1:] >= bn[:-1])), "sample arrays not ascending", "bs-sorted")
        # metrics of the sample equal direct counting over what the sample was built from
        allv = np.concatenate([bp.astype(float), bn.astype(float)])
        exact_in_float = bp.dtype.kind == "f" and bn.dtype.kind == "f" or not allv.size or float(np.abs(allv).max()) <= 2.0 ** 53
        if allv.size and exact_in_float:  # (64-bit integers beyond 2**53 against float thresholds: which side of a threshold they fall is a matter of rounding)
            q = np.quantile(allv, [0.25, 0.5, 0.8])
            judge_cm(sess, b, q, b.cm(q).matrix, monitor=monitor, sig_extra=("sample-cm",))
        if not config.smoothing:
            sp, sn = np.asarray(s.pos).tolist(), np.asarray(s.neg).tolist()
            if method == "proportion":
                C(_multiset_included(bp.tolist(), sp) and _multiset_included(bn.tolist(), sn),
                  "proportion sample is not drawn without replacement from the same class", "bs-proportion-inclusion")
            else:
                C(set(bp.tolist()) <= set(sp) and set(bn.tolist()) <= set(sn), "sample contains a score that is not in the source's same class", "bs-inclusion")
        if len(s.pos) > 0:
            C(len(bp) >= 1, "sample lost all scored positives", "bs-at-least-one")
        if len(s.neg) > 0:
            C(len(bn) >= 1, "sample lost all scored negatives", "bs-at-least-one")
        if method == "replacement":
            C(b.nb_all_samples == s.nb_all_samples, "replacement sample does not preserve the total sample count", "bs-total")
            if strat == "by_label":
                C((len(bp), len(bn), b.nb_easy_pos, b.nb_easy_neg) == (len(s.pos), len(s.neg), s.nb_easy_pos, s.nb_easy_neg),
                  "by_label: the four strata are not preserved exactly", "bs-strata")
        if method == "single_pass" and strat == "by_label":
            C((b.nb_easy_pos, b.nb_easy_neg) == (s.nb_easy_pos, s.nb_easy_neg), "single_pass by_label: easy strata not preserved", "bs-strata-easy")
        if method == "proportion" and config.ratio is not None:
            r = config.ratio
            want = (max(int(r * len(s.pos)), 1), max(int(r * len(s.neg)), 1), int(r * s.nb_easy_pos), int(r * s.nb_easy_neg))
            C((len(bp), len(bn), b.nb_easy_pos, b.nb_easy_neg) == want, "proportion sample has the wrong sizes", "bs-proportion-size")
    if "c12" in facets and is_group:
        owner = getattr(s, "_vmon_owner", None)
        if owner is None:
            allv = np.concatenate([np.asarray(s.pos, dtype=float), np.asarray(s.neg, dtype=float)])
            if len(np.unique(allv)) == len(allv):
                owner = {float(v): ("p", str(g)) for v, g in zip(s.pos, s.pos_groups)}
                owner.update({float(v): ("n", str(g)) for v, g in zip(s.neg, s.neg_groups)})
                s._vmon_owner = owner
            else:
                s._vmon_owner = owner = False
        if owner is False:
            # tied scores: a sampled element cannot be traced to one source element, but every (value, class, group) triple of the sample must
            # exist in the source, and the count clauses below do not need identities at all
            src_p = {(float(v), str(g)) for v, g in zip(s.pos, s.pos_groups)}
            src_n = {(float(v), str(g)) for v, g in zip(s.neg, s.neg_groups)}
            C(all((float(v), str(g)) in src_p for v, g in zip(b.pos, b.pos_groups)) and all((float(v), str(g)) in src_n for v, g in zip(b.neg, b.neg_groups))
              and len(b.pos) == len(b.pos_groups) and len(b.neg) == len(b.neg_groups), "a sampled (score, group) pair does not exist in the source", "gs-attached-ties")
        else:
            ok_p = all(owner.get(float(v)) == ("p", str(g)) for v, g in zip(b.pos, b.pos_groups))
            ok_n = all(owner.get(float(v)) == ("n", str(g)) for v, g in zip(b.neg, b.neg_groups))
            C(ok_p and ok_n and len(b.pos) == len(b.pos_groups) and len(b.neg) == len(b.neg_groups), "a sampled score carries a different group label than in the source", "gs-attached")
        if True:
            C([str(g) for g in b.groups] == [str(g) for g in s.groups], "list/order of group names not preserved in the sample", "gs-groups")
            bp, bn = np.asarray(b.pos), np.asarray(b.neg)
            C(bool(np.all(bp[1:] >= bp[:-1])) and bool(np.all(bn[1:] >= bn[:-1])), "group sample arrays not ascending", "gs-sorted")
            # group queries on the *sample* (it is a GroupScores of its own): per-group matrices at thresholds equal to sampled scores
            allb = np.concatenate([bp.astype(float), bn.astype(float)])
            if allb.size and (allb.size <= 80 or sess.mon(monitor).calls % 4 == 0):
                thr_b = np.unique(np.quantile(allb, [0.2, 0.5, 0.8], method="nearest"))
                gcm = np.asarray(b.group_cm(thr_b).matrix)
                ok_g = gcm.shape == (len(b.groups), len(thr_b), 2, 2)
                if ok_g:
                    for i, g in enumerate(b.groups):
                        fp_ = bp[np.asarray([str(x) == str(g) for x in b.pos_groups], dtype=bool)].tolist() if len(bp) else []
                        fn_ = bn[np.asarray([str(x) == str(g) for x in b.neg_groups], dtype=bool)].tolist() if len(bn) else []
                        ref = [R.count_cm(fp_, fn_, t, sc, ec) for t in thr_b.tolist()]
                        if gcm[i].tolist() != ref:
                            ok_g = False
                            break
                    ok_g = ok_g and np.array_equal(gcm.sum(axis=0), np.asarray(b.cm(thr_b).matrix))
                C(bool(ok_g), "per-group matrices of a bootstrap sample differ from counting on the sample's own (score, label) pairs", "gs-sample-group-cm")
            if strat == "by_group" and method == "replacement":
                same = all((np.sum(b.pos_groups == g) + np.sum(b.neg_groups == g)) == (np.sum(s.pos_groups == g) + np.sum(s.neg_groups == g)) for g in s.groups)
                C(bool(same), "by_group: a group's sample count is not preserved", "gs-group-count")


def install_bs(sess, facets=("c11",), keep=False):
    S = lib()
    from score_analysis import group_scores as G

    import collections

    install_ctor_snapshot(sess)
    sess.bs_log = []
    sess.bs_keep = keep
    recent = collections.deque(maxlen=5)  # (sample, state at creation): a later draw must not change an earlier sample

    def pre(args, kwargs):
        return _obj_state(args[0]) if facets else None

    def post(src_state, args, kwargs, res):
        s = args[0]
        config = kwargs.get("config", args[1] if len(args) > 1 else S.DEFAULT_BOOTSTRAP_CONFIG)
        if sess.bs_keep and len(sess.bs_log) < 200_000:
            sess.bs_log.append((s, config, res))
        if facets:
            if not callable(config.sampling_method):
                sess.check("M-bs", _obj_state(s) == src_state, "bootstrap_sample changed its source object", lambda: {"method": str(config.sampling_method)}, key="bs-source-unchanged")
                stale = [i for i, (b0, st0) in enumerate(recent) if b0 is not res and _obj_state(b0) != st0]
                sess.check("M-bs", not stale, "an earlier bootstrap sample changed when a later sample was drawn",
                           lambda: {"method": str(config.sampling_method), "stratified": config.stratified_sampling, "how_many_draws_ago": [len(recent) - i for i in stale]},
                           key="bs-sample-stable")
                if res is not s:
                    recent.append((res, _obj_state(res)))
            judge_sample(sess, s, config, res, facets)

    sess.wrap(S.Scores, "bootstrap_sample", "M-bs", post, pre=pre)
    sess.wrap(G.GroupScores, "bootstrap_sample", "M-bs", post, pre=pre)


# --------------------------------------------------------------------------------------
# M-gs: GroupScores construction, indexing and per-group matrices (C12)


def _pairs(values, groups):
    import collections

    return collections.Counter(zip(np.asarray(values, dtype=float).tolist(), [str(g) for g in np.asarray(groups).tolist()]))


def install_gs(sess):
    from score_analysis import group_scores as G

    def ctor_post(snap, args, kwargs, res):
        self = args[0]
        try:
            pos_in = kwargs["pos"] if "pos" in kwargs else args[1]
            neg_in = kwargs["neg"] if "neg" in kwargs else args[2]
            pg_in, ng_in = kwargs["pos_groups"], kwargs["neg_groups"]
        except (KeyError, IndexError):
            sess.skip("M-gs", "positional group arguments")
            return
        if not finite_arr(np.asarray(pos_in)) or not finite_arr(np.asarray(neg_in)):
            sess.skip("M-gs", "non-finite scores")
            return
        sig = (cfg_of(self), bool(kwargs.get("is_sorted", False)), "names" if kwargs.get("group_names") is not None else "-")
        w = lambda: {"pos_in": np.asarray(pos_in), "pos_groups_in": [str(g) for g in pg_in], "neg_in": np.asarray(neg_in), "neg_groups_in": [str(g) for g in ng_in],  # noqa: E731
                     "pos": self.pos, "pos_groups": [str(g) for g in self.pos_groups], "neg": self.neg, "neg_groups": [str(g) for g in self.neg_groups]}
        ok = _pairs(self.pos, self.pos_groups) == _pairs(pos_in, pg_in) and _pairs(self.neg, self.neg_groups) == _pairs(neg_in, ng_in)
        sess.check("M-gs", ok, "group labels are not attached to the scores they were given with", w, sig=sig, key="gs-ctor-attached")
        asc = bool(np.all(self.pos[1:] >= self.pos[:-1])) and bool(np.all(self.neg[1:] >= self.neg[:-1]))
        if kwargs.get("is_sorted", False) and not asc:
            sess.skip("M-gs", "is_sorted=True with unsorted input")
        else:
            sess.check("M-gs", asc, "GroupScores arrays not ascending after construction", w, sig=sig, key="gs-ctor-sorted")
        if kwargs.get("group_names") is None:
            want = sorted(set(str(g) for g in pg_in) | set(str(g) for g in ng_in))
            sess.check("M-gs", [str(g) for g in self.groups] == want, "groups is not the sorted list of distinct labels", w, sig=sig, key="gs-ctor-groups")

    def getitem_post(snap, args, kwargs, res):
        self, group = args[0], args[1]
        fp = np.asarray(self.pos)[np.asarray([str(g) == str(group) for g in self.pos_groups], dtype=bool)] if len(self.pos) else np.asarray(self.pos)
        fn = np.asarray(self.neg)[np.asarray([str(g) == str(group) for g in self.neg_groups], dtype=bool)] if len(self.neg) else np.asarray(self.neg)
        ok = np.array_equal(res.pos, fp) and np.array_equal(res.neg, fn) and cfg_of(res) == cfg_of(self) and res.nb_easy_pos == 0 and res.nb_easy_neg == 0
        sess.check("M-gs", ok, "indexing by a group does not yield exactly the scores carrying that label",
                   lambda: {"group": str(group), "got_pos": res.pos, "want_pos": fp, "got_neg": res.neg, "want_neg": fn}, sig=("getitem",), key="gs-getitem")

    sess.wrap(G.GroupScores, "__init__", "M-gs", ctor_post)
    sess.wrap(G.GroupScores, "__getitem__", "M-gs", getitem_post)


# --------------------------------------------------------------------------------------
# M-roc: roc() operating points (C15)

X_AXES = ["fnr", "fpr", "tnr", "tpr", "far", "frr", "tar", "trr"]


def judge_roc(sess, scores, a, r, monitor="M-roc"):
    s = scores
    if len(s.pos) == 0 or len(s.neg) == 0 or not finite_arr(s.pos) or not finite_arr(s.neg):
        sess.skip(monitor, "empty class or non-finite")
        return
    xa = a.get("x_axis", "fpr")
    sup_t, sup_fnr, sup_fpr = a.get("thresholds"), a.get("fnr"), a.get("fpr")
    nbp = a.get("nb_points", 100)
    sc, ec = cfg_of(s)
    sig = (sc, ec, xa, sup_t is not None, sup_fnr is not None, sup_fpr is not None, "None" if nbp is None else ("<=3" if nbp <= 3 else ">3"),
           s.nb_easy_pos > 0, s.nb_easy_neg > 0)

    def w(**kw):
        pos, neg = src_lists(s)
        d = {"pos": pos, "neg": neg, "easy": [int(s.nb_easy_pos), int(s.nb_easy_neg)], "cfg": [sc, ec], "x_axis": xa, "nb_points": nbp,
             "supplied_thresholds": None if sup_t is None else np.asarray(sup_t), "supplied_fnr": None if sup_fnr is None else np.asarray(sup_fnr),
             "supplied_fpr": None if sup_fpr is None else np.asarray(sup_fpr), "curve_thresholds": r.thresholds, "curve_fnr": r.fnr, "curve_fpr": r.fpr}
        d.update(kw)
        return lambda: d

    C = lambda ok, what, key: sess.check(monitor, bool(ok), what, w(), sig=sig, key=key)  # noqa: E731
    if not C(len(r.fnr) == len(r.fpr) == len(r.thresholds), "fnr, fpr and thresholds differ in length", "roc-len"):
        return
    C(np.array_equal(r.fnr, s.fnr(r.thresholds)) and np.array_equal(r.fpr, s.fpr(r.thresholds)), "curve rates are not the object's rates at the curve thresholds", "roc-rates")
    x = np.asarray(getattr(r, xa))
    C(np.all(np.diff(x) >= 0), "x-axis metric is not non-decreasing along the curve", "roc-mono")
    tset = set(np.asarray(r.thresholds, dtype=float).tolist())
    if sup_t is not None:
        C(set(np.asarray(sup_t, dtype=float).reshape(-1).tolist()) <= tset, "a supplied threshold is missing from the curve", "roc-has-thr")
    if sup_fnr is not None:
        C(set(np.atleast_1d(np.asarray(s.threshold_at_fnr(np.asarray(sup_fnr)), dtype=float)).tolist()) <= tset, "threshold of a supplied FNR is missing from the curve", "roc-has-fnr")
    if sup_fpr is not None:
        C(set(np.atleast_1d(np.asarray(s.threshold_at_fpr(np.asarray(sup_fpr)), dtype=float)).tolist()) <= tset, "threshold of a supplied FPR is missing from the curve", "roc-has-fpr")
    nothing = all(v is None or np.size(v) == 0 for v in (sup_t, sup_fnr, sup_fpr))
    if nothing and a.get("_count", True):
        want = nbp if nbp is not None else len(s.pos) + len(s.neg)
        C(len(r.thresholds) == want, "curve does not have the requested number of points", "roc-npoints")
    C(np.array_equal(r.tpr, 1.0 - r.fnr) and np.array_equal(r.tnr, 1.0 - r.fpr) and np.array_equal(r.far, r.fpr) and np.array_equal(r.frr, r.fnr)
      and np.array_equal(r.tar, r.tpr) and np.array_equal(r.trr, r.tnr), "derived views are not the complements/aliases of fnr/fpr", "roc-views")


def install_roc(sess):
    import sys

    import score_analysis

    RC = sys.modules["score_analysis.roc_curve"]

    kept = []  # the last curves returned, with copies of their arrays at return time: later calls must not change them

    def pre(args, kwargs):
        return {k: (v, np.array(v, copy=True)) for k, v in kwargs.items() if k in ("thresholds", "fnr", "fpr") and isinstance(v, np.ndarray)}

    def post(snap, args, kwargs, res):
        a = dict(kwargs)
        judge_roc(sess, args[0] if args else a.pop("scores"), a, res)
        for k, (v, cp) in (snap or {}).items():
            sess.check("M-roc", np.array_equal(v, cp, equal_nan=True), "roc() changed a caller-supplied array", lambda: {"argument": k, "before": cp, "after": v},
                       sig=("caller-array", k), key="roc-caller-array")
        for curve, th, fnr, fpr in kept:
            ok = np.array_equal(curve.thresholds, th, equal_nan=True) and np.array_equal(curve.fnr, fnr, equal_nan=True) and np.array_equal(curve.fpr, fpr, equal_nan=True)
            sess.check("M-roc", ok, "a curve returned earlier was changed by a later roc() call",
                       lambda: {"thresholds_at_return": th, "thresholds_now": np.asarray(curve.thresholds), "fnr_at_return": fnr, "fnr_now": np.asarray(curve.fnr)},
                       sig=("kept-curve",), key="roc-kept-curve")
        kept.append((res, np.array(res.thresholds, copy=True), np.array(res.fnr, copy=True), np.array(res.fpr, copy=True)))
        del kept[:-4]

    sess.wrap(RC, "roc", "M-roc", post, pre=pre)
    sess.wrap(score_analysis, "roc", "M-roc", post, pre=pre)  # name bound at import of the package


# --------------------------------------------------------------------------------------
# M-band: ROC confidence bands (C16). Needs install_bs(keep=True) to see the samples drawn.


def rule_of_three(p, ci, alpha, n):
    out = [list(map(float, row)) for row in ci]
    for i, pv in enumerate(p):
        if pv == 0.0:
            out[i] = [0.0, 1.0 - math.pow(alpha, 1.0 / n)]
        elif pv == 1.0:
            out[i] = [math.pow(alpha, 1.0 / n), 1.0]
    return out


def band_metric(x, fnr, fpr):
    return np.stack([x.fnr(x.threshold_at_fpr(fpr)), x.fpr(x.threshold_at_fnr(fnr))], axis=0)


def install_band(sess):
    import importlib
    import sys

    import score_analysis

    RC = sys.modules["score_analysis.roc_curve"]
    importlib.import_module("score_analysis.experimental.roc_ci")
    EX = sys.modules["score_analysis.experimental.roc_ci"]
    EXP = sys.modules["score_analysis.experimental"]
    S = lib()

    def in_scope(s, a):
        alpha = a.get("alpha", 0.05)
        return (len(s.pos) > 0 and len(s.neg) > 0 and finite_arr(s.pos) and finite_arr(s.neg) and isinstance(alpha, float) and 0.0 < alpha < 1.0)

    kept_bands = []  # the last band curves returned (all four functions), with copies of their arrays at return time

    def make(name):
        def pre(args, kwargs):
            snaps = {k: (v, np.array(v, copy=True)) for k, v in kwargs.items() if k in ("thresholds", "fnr", "fpr") and isinstance(v, np.ndarray)}
            return len(sess.bs_log), len(sess.bci_log), snaps

        def post(marks, args, kwargs, r):
            n0, c0, snaps = marks
            for k, (v, cp) in snaps.items():
                sess.check("M-band", np.array_equal(v, cp, equal_nan=True), f"{name} changed a caller-supplied array", lambda: {"argument": k, "before": cp, "after": v},
                           sig=("caller-array", name, k), key="band-caller-array")
            for curve, arrs in kept_bands:
                ok = all(np.array_equal(getattr(curve, nm_), cp_, equal_nan=True) for nm_, cp_ in arrs.items())
                sess.check("M-band", ok, "a band curve returned earlier was changed by a later call",
                           lambda: {"later_call": name, "thresholds_at_return": arrs["thresholds"], "thresholds_now": np.asarray(curve.thresholds)},
                           sig=("kept-curve", name), key="band-kept-curve")
            kept_bands.append((r, {nm_: np.array(getattr(r, nm_), copy=True) for nm_ in ("thresholds", "fnr", "fpr", "fnr_ci", "fpr_ci")}))
            del kept_bands[:-4]
            a = dict(kwargs)
            s = args[0] if args else a.pop("scores")
            if not in_scope(s, a):
                sess.skip("M-band", "out of scope")
                return
            alpha = a.get("alpha", 0.05)
            config = a.get("config", S.DEFAULT_BOOTSTRAP_CONFIG)
            sc, ec = cfg_of(s)
            supplied = tuple(k for k in ("fnr", "fpr", "thresholds") if a.get(k) is not None)
            custom = callable(config.sampling_method)
            sig = (name, sc, ec, config.bootstrap_method, "custom" if custom else config.sampling_method, config.stratified_sampling, supplied,
                   str(a.get("nb_points")), alpha, s.nb_easy_pos > 0, s.nb_easy_neg > 0)

            def w(**kw):
                pos, neg = src_lists(s)
                d = {"function": name, "pos": pos, "neg": neg, "easy": [int(s.nb_easy_pos), int(s.nb_easy_neg)], "cfg": [sc, ec], "alpha": alpha,
                     "bootstrap_method": config.bootstrap_method, "sampling_method": str(config.sampling_method), "nb_samples": config.nb_samples,
                     "supplied": {k: np.asarray(a[k]) for k in supplied}, "nb_points": a.get("nb_points"),
                     "thresholds": r.thresholds, "fnr": r.fnr, "fpr": r.fpr, "fnr_ci": r.fnr_ci, "fpr_ci": r.fpr_ci}
                d.update(kw)
                return lambda: d

            C = lambda ok, what, key, **kw: sess.check("M-band", bool(ok), what, w(**kw), sig=sig, key=key)  # noqa: E731
            n = len(r.thresholds)
            C(np.array_equal(r.fnr, s.fnr(r.thresholds)) and np.array_equal(r.fpr, s.fpr(r.thresholds)), "curve rates do not match the curve thresholds", "band-rates")
            if not C(np.shape(r.fnr_ci) == (n, 2) and np.shape(r.fpr_ci) == (n, 2), "bands do not have shape (n, 2)", "band-shape"):
                return
            fc, pc = np.asarray(r.fnr_ci, dtype=float), np.asarray(r.fpr_ci, dtype=float)
            if not C(not (np.isnan(fc).any() or np.isnan(pc).any()), "bands contain NaN", "band-nan"):
                return
            C(np.all(fc[:, 0] <= fc[:, 1]) and np.all(pc[:, 0] <= pc[:, 1]), "band lower limit above upper limit", "band-order")
            if name == "roc_with_ci":
                C(fc.min() >= 0.0 and fc.max() <= 1.0 and pc.min() >= 0.0 and pc.max() <= 1.0, "roc_with_ci band outside [0,1]", "band-range")
            if name in ("roc_with_ci", "pointwise_band_ci"):
                samples = [b for (src, cfg_, b) in sess.bs_log[n0:] if src is s]
                if len(samples) != config.nb_samples:
                    sess.check("M-band", False, "number of bootstrap samples drawn differs from nb_samples", w(drawn=len(samples)), sig=sig, key="band-nb-samples")
                    return
                fnr, fpr = np.asarray(r.fnr), np.asarray(r.fpr)
                calls = sess.bci_log[c0:]
                if not C(len(calls) == 1, "expected exactly one interval computation per call", "band-one-ci"):
                    return
                call = calls[0]
                # (1) what reached the CI formula is the joint metric on the samples actually drawn, with the source's metric as estimate
                reps = np.stack([band_metric(b, fnr, fpr) for b in samples], axis=0)  # (S, 2, n)
                C(np.shape(call["theta"]) == reps.shape and np.array_equal(call["theta"], reps, equal_nan=True),
                  "replicates handed to the CI formula are not [FNR at FPR, FPR at FNR] of the samples drawn", "band-replicates")
                C(np.array_equal(np.asarray(call["theta_hat"]), band_metric(s, fnr, fpr), equal_nan=True) and call["method"] == config.bootstrap_method
                  and call["alpha"] == alpha, "estimate/alpha/method handed to the CI formula are not those of the call", "band-estimate")
                # (2) the formula itself is judged by M-bci on that very call; (3) from its result the bands must follow exactly
                joint = np.asarray(call["result"], dtype=float)
                if joint.shape != (2, n, 2) or np.isnan(joint).any():
                    sess.skip("M-band", "pointwise interval undefined")
                    return
                fnr_ci = rule_of_three(fnr.tolist(), joint[0].tolist(), alpha, s.nb_all_pos)
                fpr_ci = rule_of_three(fpr.tolist(), joint[1].tolist(), alpha, s.nb_all_neg)
                if name == "roc_with_ci":
                    exp_fpr_band = np.asarray(R.aggregate_rectangles(fnr.tolist(), fnr_ci, fpr_ci))
                    exp_fnr_band = np.asarray(R.aggregate_rectangles(fpr.tolist(), fpr_ci, fnr_ci))
                else:
                    exp_fpr_band, exp_fnr_band = np.asarray(fpr_ci), np.asarray(fnr_ci)
                C(np.all(np.abs(exp_fnr_band - fc) <= 1e-12) and np.all(np.abs(exp_fpr_band - pc) <= 1e-12),
                  "bands differ from the envelope of pointwise rectangles (bootstrap interval; rule of three iff the rate is exactly 0 or 1)",
                  "band-closed-form", expected_fnr_band=exp_fnr_band, expected_fpr_band=exp_fpr_band)

        def on_exc(marks, args, kwargs, exc):
            a = dict(kwargs)
            s = args[0] if args else a.pop("scores", None)
            if s is None or not in_scope(s, a):
                sess.skip("M-band", "raised out of scope")
                return
            if name == "fixed_width_band_ci" and (any(a.get(k) is not None for k in ("fnr", "fpr", "thresholds")) or (a.get("nb_points") is not None and a.get("nb_points") < 3)):
                sess.skip("M-band", "fixed_width_band_ci on a support not spanning the curve")
                return
            pos, neg = src_lists(s)
            sess.check("M-band", False, f"{name} raised on documented arguments",
                       lambda: {"function": name, "pos": pos, "neg": neg, "nb_hard_pos": len(pos), "nb_hard_neg": len(neg),
                                "easy": [int(s.nb_easy_pos), int(s.nb_easy_neg)], "cfg": list(cfg_of(s)),
                                "kwargs": {k: (np.asarray(v) if k in ("fnr", "fpr", "thresholds") and v is not None else str(v)) for k, v in a.items()}, "exc": repr(exc)},
                       key="band-raise-" + name)

        return pre, post, on_exc

    pre, post, on_exc = make("roc_with_ci")
    sess.wrap(RC, "roc_with_ci", "M-band", post, pre=pre, on_exc=on_exc)
    sess.wrap(score_analysis, "roc_with_ci", "M-band", post, pre=pre, on_exc=on_exc)
    for nm in ("pointwise_band_ci", "simultaneous_joint_region_ci", "fixed_width_band_ci"):
        pre, post, on_exc = make(nm)
        sess.wrap(EX, nm, "M-band", post, pre=pre, on_exc=on_exc)
        sess.wrap(EXP, nm, "M-band", post, pre=pre, on_exc=on_exc)


# --------------------------------------------------------------------------------------
# M-ipl: invert_pl_function (C17)


def judge_ipl(sess, x, y, t, res, monitor="M-ipl"):
    x = np.asarray(x, dtype=float)
    y = np.asarray(y, dtype=float)
    t_arr = np.asarray(t, dtype=float)
    if x.ndim != 1 or y.shape != x.shape or len(x) < 1 or not np.all(np.isfinite(x)) or not np.all(np.isfinite(y)) or np.any(np.isnan(t_arr)) or t_arr.ndim > 1:
        sess.skip(monitor, "malformed curve or target")
        return
    if np.any(np.diff(x) < 0) or np.any((np.diff(x) == 0) & (np.diff(y) != 0)):
        sess.skip(monitor, "x decreasing or duplicate x with different y")
        return
    scalar = t_arr.ndim == 0
    ts = [float(t_arr)] if scalar else t_arr.tolist()
    if scalar:
        if not sess.check(monitor, isinstance(res, np.ndarray), "scalar target must give a bare array", lambda: {"type": str(type(res))}, key="ipl-scalar"):
            return
        entries = [res]
    else:
        if not sess.check(monitor, isinstance(res, list) and len(res) == len(ts), "one entry per target expected",
                          lambda: {"len_result": len(res) if hasattr(res, "__len__") else None, "len_targets": len(ts)}, key="ipl-len"):
            return
        entries = res
    xl, yl = x.tolist(), y.tolist()
    ymin, ymax = min(yl), max(yl)
    # residual tolerance: relative to the amplitude of the samples (rates of 1e-9 are data, too) plus rounding at their magnitude
    scale = (max(yl) - min(yl)) + 1.6e10 * float(np.spacing(max(abs(v) for v in yl) + 1e-300))
    xs_scale = max(1.0, abs(xl[0]), abs(xl[-1]))
    n = len(xl)
    for tv, s in zip(ts, entries):
        s = np.asarray(s, dtype=float).ravel()  # the no-solution fallback entry may be (1, 1)-shaped
        has_sol = ymin <= tv <= ymax
        sig = ("sol" if has_sol else "nosol", "n%d" % min(n, 6), "dupx" if np.any(np.diff(x) == 0) else "-")

        def w(**kw):
            d = {"x": xl, "y": yl, "t": tv, "result": s.tolist()}
            d.update(kw)
            return lambda: d

        if not sess.check(monitor, len(s) >= 1, "empty solution array", w(), sig=sig, key="ipl-empty"):
            continue
        sess.check(monitor, bool(np.all(np.diff(s) > 0)), "solutions not strictly increasing", w(), sig=sig, key="ipl-increasing")
        eps_x = 4 * np.spacing(xs_scale)
        sess.check(monitor, s.min() >= xl[0] - eps_x and s.max() <= xl[-1] + eps_x, "solution outside the sampled range", w(), sig=sig, key="ipl-range")
        if has_sol:
            # every returned point solves f(s) = t
            slope = max((abs(yl[j + 1] - yl[j]) / (xl[j + 1] - xl[j]) for j in range(n - 1) if xl[j + 1] > xl[j]), default=0.0)
            tol = 1e-9 * scale + 8 * slope * np.spacing(xs_scale)
            errs = [abs(R.pl_eval(xl, yl, float(v)) - tv) for v in s.tolist()]
            sess.check(monitor, max(errs) <= tol, "a returned point does not solve f(s) = t", w(errors=errs, tol=tol), sig=sig, key="ipl-solves")
            # every segment with a strict sign change contains a returned point
            missing = None
            for j in range(n - 1):
                a, b = yl[j] - tv, yl[j + 1] - tv
                if (a < 0 < b) or (a > 0 > b):
                    if not np.any((s >= xl[j] - eps_x) & (s <= xl[j + 1] + eps_x)):
                        missing = j
                        break
            sess.check(monitor, missing is None, "a strict crossing has no returned solution", w(segment=missing), sig=sig, key="ipl-complete")
            # a crossing that passes exactly through a knot (y[j] == t with a sign change across it) is a solution at x[j]
            missing_knot = None
            for j in range(1, n - 1):
                if yl[j] == tv and (yl[j - 1] - tv) * (yl[j + 1] - tv) < 0 and xl[j - 1] < xl[j] < xl[j + 1]:
                    if not np.any(np.abs(s - xl[j]) <= eps_x):
                        missing_knot = j
                        break
            sess.check(monitor, missing_knot is None, "a crossing through a knot has no returned solution", w(knot=missing_knot), sig=sig, key="ipl-complete-knot")
            # an interior sample that touches the target from one side (a strict peak or valley exactly at t) is a solution at x[j]
            missing_touch = None
            for j in range(1, n - 1):
                if yl[j] == tv and (yl[j - 1] - tv) * (yl[j + 1] - tv) > 0 and xl[j - 1] < xl[j] < xl[j + 1]:
                    if not np.any(np.abs(s - xl[j]) <= eps_x):
                        missing_touch = j
                        break
            sess.check(monitor, missing_touch is None, "an interior sample touching the target (strict peak / valley at t) has no returned solution", w(knot=missing_touch), sig=sig, key="ipl-complete-touch")
        else:
            ok = len(s) == 1
            if ok:
                best = min(abs(v - tv) for v in yl)
                idx = [j for j in range(n) if xl[j] == s[0]]
                ok = bool(idx) and any(abs(yl[j] - tv) == best for j in idx)
            sess.check(monitor, ok, "no solution: result is not the single sample point closest to the target", w(), sig=sig, key="ipl-closest")


def judge_ipl_large(sess, x, y, t, res, monitor="M-ipl"):
    """Vectorised version of the same oracle for big inputs (np.interp is independent of the function under observation)."""
    x = np.asarray(x, dtype=float)
    y = np.asarray(y, dtype=float)
    ts = np.atleast_1d(np.asarray(t, dtype=float))
    if not sess.check(monitor, isinstance(res, list) and len(res) == len(ts), "one entry per target expected", lambda: {"len_targets": len(ts)}, key="ipl-len"):
        return
    scale = float(np.ptp(y)) + 1.6e10 * float(np.spacing(float(np.abs(y).max()) + 1e-300))
    dx = np.diff(x)
    slope = float(np.max(np.abs(np.diff(y))[dx > 0] / dx[dx > 0])) if np.any(dx > 0) else 0.0
    tol = 1e-9 * scale + 8 * slope * np.spacing(max(1.0, abs(x[0]), abs(x[-1])))
    eps_x = 4 * np.spacing(max(1.0, abs(x[0]), abs(x[-1])))
    bad = {}
    for k, (tv, s_) in enumerate(zip(ts.tolist(), res)):
        sk = np.asarray(s_, dtype=float).ravel()
        d = y - tv
        cross = np.nonzero(d[:-1] * d[1:] < 0)[0]
        if y.min() <= tv <= y.max():
            if not (len(sk) >= 1 and np.all(np.diff(sk) > 0)):
                bad.setdefault("ipl-increasing", (k, tv, len(sk)))
            elif sk.min() < x[0] - eps_x or sk.max() > x[-1] + eps_x:
                bad.setdefault("ipl-range", (k, tv, len(sk)))
            elif np.max(np.abs(np.interp(sk, x, y) - tv)) > tol:
                bad.setdefault("ipl-solves", (k, tv, float(np.max(np.abs(np.interp(sk, x, y) - tv)))))
            if len(cross) and len(sk):
                pos = np.searchsorted(sk, x[cross] - eps_x, side="left")
                ok = (pos < len(sk)) & (sk[np.minimum(pos, len(sk) - 1)] <= x[cross + 1] + eps_x)
                if not np.all(ok):
                    bad.setdefault("ipl-complete", (k, tv, int(cross[np.argmin(ok)])))
        else:
            best = np.min(np.abs(y - tv))
            if not (len(sk) == 1 and np.any((x == sk[0]) & (np.abs(y - tv) == best))):
                bad.setdefault("ipl-closest", (k, tv, len(sk)))
    sig = ("large", "n%d" % len(x), "t%d" % len(ts))
    for key in ("ipl-increasing", "ipl-range", "ipl-solves", "ipl-complete", "ipl-closest"):
        sess.check(monitor, key not in bad, "large curve: " + key, lambda key=key: {"n": len(x), "nb_targets": len(ts), "target_index_value_info": bad.get(key)}, sig=sig, key=key)


def install_ipl(sess):
    import sys

    U = sys.modules["score_analysis.utils"]

    def post(snap, args, kwargs, res):
        a = dict(zip(["x", "y", "t"], args))
        a.update(kwargs)
        if np.size(a["x"]) * max(np.size(a["t"]), 1) > 200_000 and np.ndim(a["t"]) == 1 and np.all(np.diff(np.asarray(a["x"], dtype=float)) > 0):
            judge_ipl_large(sess, a["x"], a["y"], a["t"], res)
        else:
            judge_ipl(sess, a["x"], a["y"], a["t"], res)

    sess.wrap(U, "invert_pl_function", "M-ipl", post)


# --------------------------------------------------------------------------------------
# M-met: score_analysis.metrics.* and utils.binomial_ci (C04)

COUNT_CELLS = {
    "tp": ((0, 0),), "fn": ((0, 1),), "fp": ((1, 0),), "tn": ((1, 1),),
    "p": ((0, 0), (0, 1)), "n": ((1, 0), (1, 1)), "top": ((0, 0), (1, 0)), "ton": ((0, 1), (1, 1)),
}
CI_OF = {"tpr_ci": "tpr", "tnr_ci": "tnr", "fpr_ci": "fpr", "fnr_ci": "fnr", "tar_ci": "tpr", "trr_ci": "tnr", "far_ci": "fpr", "frr_ci": "fnr"}


def _binary_in_scope(m):
    m = np.asarray(m)
    return m.ndim >= 2 and m.shape[-2:] == (2, 2) and m.dtype.kind in "fiu" and bool(np.all(np.isfinite(m))) and bool(np.all(m >= 0)) and (m.size == 0 or float(m.max()) <= 1e13)


def _cells(m, cells):
    m = np.asarray(m)
    if m.dtype.kind in "iub":
        # exact counts, whatever the width of the cell type: the oracle must not add in uint8/int32 (nor treat True + True as True)
        m = m.astype(np.int64) if (m.dtype.itemsize < 8 or m.dtype.kind == "b") else m
    return sum(m[..., r, c] for r, c in cells)


def _rtol_of(m):
    """Relative accuracy that can be asked of arithmetic done in the matrix's own floating-point type."""
    m = np.asarray(m)
    if m.dtype.kind == "f" and m.dtype.itemsize < 8:
        return 16 * float(np.finfo(m.dtype).eps)
    return 1e-12


def install_met(sess):
    import sys

    M = sys.modules["score_analysis.metrics"]
    U = sys.modules["score_analysis.utils"]

    def make_rate(name):
        num_c, den_c = R.RATE_CELLS[name]

        def post(snap, args, kwargs, res):
            m = np.asarray(args[0] if args else kwargs["matrix"])
            if name in ("accuracy", "error_rate") and not (m.ndim >= 2 and m.shape[-1] == 2 and m.shape[-2] == 2):
                sess.skip("M-met", "multiclass accuracy (C05)")
                return
            if not _binary_in_scope(m):
                sess.skip("M-met", "matrix out of scope")
                return
            lead = m.shape[:-2]
            num = _cells(m, num_c).astype(float)
            den = _cells(m, den_c).astype(float)
            val = np.asarray(res, dtype=float)
            sig = (name, m.dtype.kind, "lead%d" % len(lead), "size0" if m.size == 0 else "-")
            w = lambda: {"metric": name, "matrix": m, "result": val}  # noqa: E731
            if not sess.check("M-met", val.shape == lead, "rate has the wrong shape", w, sig=sig, key="met-shape"):
                return
            isn = np.isnan(val)
            sess.check("M-met", np.array_equal(isn, den == 0), "rate is NaN not exactly where its denominator is zero", w, sig=sig, key="met-nan-locus")
            ok = ~isn & (den != 0)
            with np.errstate(all="ignore"):
                exp = num[ok] / den[ok]
            rt = _rtol_of(m)
            sess.check("M-met", bool(np.all(np.abs(val[ok] - exp) <= rt * np.maximum(1.0, np.abs(exp)))), "rate differs from numerator/denominator of its definition", w, sig=sig, key="met-value")
            sess.check("M-met", bool(np.all((val[ok] >= 0) & (val[ok] <= 1 + (rt if rt > 1e-12 else 0)))), "rate outside [0,1]", w, sig=sig, key="met-range")

        return post

    def make_count(name):
        cells = COUNT_CELLS[name]

        def post(snap, args, kwargs, res):
            m = np.asarray(args[0] if args else kwargs["matrix"])
            if not _binary_in_scope(m):
                sess.skip("M-met", "matrix out of scope")
                return
            exp = _cells(m, cells)
            sess.check("M-met", np.shape(res) == m.shape[:-2] and bool(np.allclose(np.asarray(res), exp, rtol=_rtol_of(m), atol=0, equal_nan=True)), "count differs from the sum of its cells",
                       lambda: {"metric": name, "matrix": m, "result": np.asarray(res)}, sig=(name, m.dtype.kind), key="met-count")

        return post

    def make_ci(name):
        rate = CI_OF[name]
        num_c, den_c = R.RATE_CELLS[rate]

        def post(snap, args, kwargs, res):
            a = dict(zip(["matrix", "alpha"], args))
            a.update(kwargs)
            m = np.asarray(a["matrix"])
            alpha = a.get("alpha", 0.05)
            if not _binary_in_scope(m) or not isinstance(alpha, float) or not (0 < alpha < 1):
                sess.skip("M-met", "matrix/alpha out of scope")
                return
            lead = m.shape[:-2]
            ci = np.asarray(res, dtype=float)
            sig = (name, m.dtype.kind, "lead%d" % len(lead))
            w = lambda: {"metric": name, "matrix": m, "alpha": alpha, "result": ci}  # noqa: E731
            if not sess.check("M-met", ci.shape == lead + (2,), "interval has the wrong shape", w, sig=sig, key="met-ci-shape"):
                return
            num = _cells(m, num_c).astype(float)
            den = _cells(m, den_c).astype(float)
            z = -R.ppf(alpha / 2)  # upper-tail quantile from the lower tail: 1 - alpha/2 would round for tiny alpha
            with np.errstate(all="ignore"):
                p = np.where(den != 0, num / np.where(den == 0, 1, den), np.nan)
                hw = z * np.sqrt(p * (1 - p) / np.where(den == 0, 1, den))
            rt = max(_rtol_of(m) ** 0.5 if _rtol_of(m) > 1e-12 else 0.0, 1e-9)  # sqrt(p(1-p)/n) takes the square root of the cells' accuracy
            ok = np.allclose(ci[..., 0], p - hw, rtol=rt, atol=max(1e-12, rt), equal_nan=True) and np.allclose(ci[..., 1], p + hw, rtol=rt, atol=max(1e-12, rt), equal_nan=True)
            sess.check("M-met", ok, "interval is not rate -/+ z(alpha/2)*sqrt(p(1-p)/n)", w, sig=sig, key="met-ci-value")
            sess.check("M-met", np.array_equal(np.isnan(ci[..., 0]), den == 0) and np.array_equal(np.isnan(ci[..., 1]), den == 0), "interval is NaN not exactly where the rate is", w, sig=sig, key="met-ci-nan")

        return post

    for name in R.RATE_CELLS:
        if hasattr(M, name):
            sess.wrap(M, name, "M-met", make_rate(name))
    for name in COUNT_CELLS:
        sess.wrap(M, name, "M-met", make_count(name))
    for name in CI_OF:
        sess.wrap(M, name, "M-met", make_ci(name))

    def pop_post(snap, args, kwargs, res):
        m = np.asarray(args[0] if args else kwargs["matrix"])
        if m.ndim < 2 or m.dtype.kind not in "fiu":
            return
        sess.check("M-met", np.shape(res) == m.shape[:-2] and bool(np.allclose(np.asarray(res), m.sum(axis=-1).sum(axis=-1), rtol=_rtol_of(m), atol=0)), "pop is not the sum of all cells", lambda: {"matrix": m}, sig=("pop",), key="met-count")

    sess.wrap(M, "pop", "M-met", pop_post)

    def bin_post(snap, args, kwargs, res):
        a = dict(zip(["count", "nobs", "alpha"], args))
        a.update(kwargs)
        count, nobs = np.asarray(a["count"], dtype=float), np.asarray(a["nobs"], dtype=float)
        alpha = a.get("alpha", 0.05)
        if not isinstance(alpha, float) or not (0 < alpha < 1) or np.any(~np.isfinite(count)) or np.any(~np.isfinite(nobs)) or np.any(count < 0) or np.any(count > nobs):
            sess.skip("M-met", "binomial_ci out of scope")
            return
        z = -R.ppf(alpha / 2)
        with np.errstate(all="ignore"):
            p = np.where(nobs != 0, count / np.where(nobs == 0, 1, nobs), np.nan)
            hw = z * np.sqrt(p * (1 - p) / np.where(nobs == 0, 1, nobs))
        ci = np.asarray(res, dtype=float)
        src = np.asarray(a["count"])
        rt = max(_rtol_of(src) ** 0.5 if _rtol_of(src) > 1e-12 else 0.0, 1e-9)
        ok = ci.shape == count.shape + (2,) and np.allclose(ci[..., 0], p - hw, rtol=rt, atol=max(1e-12, rt), equal_nan=True) and np.allclose(ci[..., 1], p + hw, rtol=rt, atol=max(1e-12, rt), equal_nan=True)
        sess.check("M-met", ok, "binomial_ci is not the normal-approximation interval", lambda: {"count": count, "nobs": nobs, "alpha": alpha, "result": ci}, sig=("binomial_ci",), key="met-binomial")

    sess.wrap(U, "binomial_ci", "M-met", bin_post)
    sess.wrap(M, "binomial_ci", "M-met", bin_post)  # name bound at import in metrics.py


# --------------------------------------------------------------------------------------
# M-cmx: ConfusionMatrix.one_vs_all (C05)


def install_cmx(sess):
    import sys

    CM = sys.modules["score_analysis.cm"]

    def post(snap, args, kwargs, res):
        self = args[0]
        M = np.asarray(self.matrix)
        if M.ndim < 2 or M.shape[-1] != M.shape[-2] or M.dtype.kind not in "fiu" or not np.all(np.isfinite(M)) or np.any(M < 0):
            sess.skip("M-cmx", "matrix out of scope")
            return
        K = M.shape[-1]
        lead = M.shape[:-2]
        ova = np.asarray(res.matrix)
        sig = ("K%d" % K, M.dtype.kind, "lead%d" % len(lead))
        w = lambda: {"matrix": M, "one_vs_all": ova}  # noqa: E731
        if not sess.check("M-cmx", ova.shape == (*lead, K, 2, 2) and res.binary, "one_vs_all has the wrong shape or is not binary", w, sig=sig, key="ova-shape"):
            return
        tot = M.sum(axis=-1).sum(axis=-1)
        tol = dict(rtol=1e-12, atol=1e-9)
        sess.check("M-cmx", bool(np.allclose(ova.sum(axis=-1).sum(axis=-1), tot[..., None], **tol)), "one-vs-all does not conserve the population", w, sig=sig, key="ova-conserve")
        ok = True
        for j in range(K):
            ok = (ok and np.allclose(ova[..., j, 0, 0], M[..., j, j], **tol) and np.allclose(ova[..., j, 0, :].sum(-1), M[..., j, :].sum(-1), **tol)
                  and np.allclose(ova[..., j, :, 0].sum(-1), M[..., :, j].sum(-1), **tol))
        sess.check("M-cmx", bool(ok), "one-vs-all cells: TP is not the diagonal, P not the row sum or TOP not the column sum", w, sig=sig, key="ova-cells")
        sess.check("M-cmx", bool(np.all(ova >= -1e-9)), "negative one-vs-all cell", w, sig=sig, key="ova-negative")

    sess.wrap(CM.ConfusionMatrix, "one_vs_all", "M-cmx", post)


# --------------------------------------------------------------------------------------
# M-state / M-shape: side-effect freedom and shapes of every public query (C10)

RATE_NAMES = ["tpr", "fnr", "tnr", "fpr", "topr", "tonr", "tar", "frr", "trr", "far", "acceptance_rate", "rejection_rate"]
GROUP_RATE_NAMES = ["group_" + n for n in RATE_NAMES]


def _obj_state(s):
    st = [np.asarray(s.pos).tobytes(), str(np.asarray(s.pos).dtype), np.asarray(s.pos).shape, np.asarray(s.neg).tobytes(), str(np.asarray(s.neg).dtype),
          np.asarray(s.neg).shape, s.nb_easy_pos, s.nb_easy_neg, lab(s.score_class), lab(s.equal_class)]
    if hasattr(s, "pos_groups"):
        st += [np.asarray(s.pos_groups).tobytes(), np.asarray(s.neg_groups).tobytes(), np.asarray(s.groups).tobytes()]
    return st


def _arg_snap(args, kwargs):
    out = []
    for v in list(args[1:]) + list(kwargs.values()):
        if isinstance(v, np.ndarray):
            out.append((v, v.copy()))
        elif isinstance(v, list):
            out.append((v, list(v)))
    return out


def _args_unchanged(snap):
    for live, copy in snap:
        if isinstance(live, np.ndarray):
            if live.shape != copy.shape or not np.array_equal(live, copy, equal_nan=True):
                return False
        elif live != copy:
            return False
    return True


def is_plain_scalar_input(v):
    return isinstance(v, (int, float)) and not isinstance(v, bool) or isinstance(v, np.generic) or (isinstance(v, np.ndarray) and v.ndim == 0)


def install_state(sess):
    import sys

    S = lib()
    G = sys.modules["score_analysis.group_scores"]

    def pre(args, kwargs):
        return _obj_state(args[0]), _arg_snap(args, kwargs)

    def state_post(name):
        def post(snap, args, kwargs, res):
            st0, argsnap = snap
            sig = (type(args[0]).__name__, name)
            sess.check("M-state", _obj_state(args[0]) == st0, "a query mutated the object", lambda: {"method": name, "type": type(args[0]).__name__}, sig=sig, key="state-object")
            sess.check("M-state", _args_unchanged(argsnap), "a query mutated a caller-supplied array", lambda: {"method": name}, sig=sig, key="state-args")

        return post

    def first_arg(args, kwargs):
        if len(args) > 1:
            return args[1]
        for k, v in kwargs.items():
            if k != "method":
                return v
        return None

    def shape_post(name, kind):
        sp = state_post(name)

        def post(snap, args, kwargs, res):
            sp(snap, args, kwargs, res)
            s = args[0]
            x = first_arg(args, kwargs)
            if x is None:
                return
            xa = np.asarray(x)
            # a NaN *threshold* is still "any threshold array": whatever the library answers for it, the vectorised call and the scalar call
            # on that element must answer the same (both go through the same search); NaN targets of threshold setting stay out of scope
            if xa.dtype.kind not in "fiub" or (xa.dtype.kind == "f" and np.isnan(xa).any() and kind != "rate"):
                sess.skip("M-shape", "non-numeric / NaN input")
                return
            rel_ok = True
            if kind == "thr":
                rel_ok = len(relevant_scores(s, THR_METRICS[name[len("threshold_at_"):]])) > 0
            if not rel_ok:
                return
            sig = (type(s).__name__, kind, "scalar" if is_plain_scalar_input(x) else ("list" if isinstance(x, list) else "nd%d" % xa.ndim), "size0" if xa.size == 0 else "-")
            w = lambda **kw: (lambda: dict({"method": name, "input": x if not isinstance(x, np.ndarray) else x, "result_type": str(type(res)), "result_shape": np.shape(res)}, **kw))  # noqa: E731
            if kind == "cm":
                sess.check("M-shape", np.shape(res.matrix) == xa.shape + (2, 2), "confusion matrix shape is not X+(2,2)", w(), sig=sig, key="shape-cm")
                return
            if kind == "group":
                G_ = len(s.groups)
                sess.check("M-shape", np.shape(res) == (G_,) + xa.shape, "per-group rate shape is not (G,)+X", w(), sig=sig, key="shape-group")
                return
            if is_plain_scalar_input(x):
                sess.check("M-shape", type(res) is float, "scalar input does not yield a plain Python float", w(), sig=sig, key="shape-scalar")
            else:
                if not sess.check("M-shape", isinstance(res, np.ndarray) and res.shape == xa.shape, "result shape differs from the input shape", w(), sig=sig, key="shape-array"):
                    return
                if xa.size:
                    # elementwise agreement with the scalar call, on up to 6 elements
                    flat_x = xa.reshape(-1)
                    flat_r = res.reshape(-1)
                    idx = np.unique(np.linspace(0, xa.size - 1, 6).astype(int))
                    kw2 = {k: v for k, v in kwargs.items() if k == "method"}
                    fn = getattr(s, name)
                    ok = True
                    bad = None
                    for i in idx.tolist():
                        one = fn(float(flat_x[i]), **kw2)
                        if not (one == flat_r[i] or (one != one and flat_r[i] != flat_r[i])):
                            ok, bad = False, (i, float(flat_x[i]), one, float(flat_r[i]))
                            break
                    sess.check("M-shape", ok, "an element of the vectorised result differs from the scalar call on that element", w(index_input_scalar_vector=bad), sig=sig, key="shape-elementwise")

        return post

    for n in RATE_NAMES:
        sess.wrap(S.Scores, n, "M-state", shape_post(n, "rate"), pre=pre)
    for n in THR_METRICS:
        sess.wrap(S.Scores, "threshold_at_" + n, "M-state", shape_post("threshold_at_" + n, "thr"), pre=pre)
    sess.wrap(S.Scores, "cm", "M-state", shape_post("cm", "cm"), pre=pre)
    sess.wrap(S.Scores, "confusion_matrix", "M-state", shape_post("confusion_matrix", "cm"), pre=pre)
    for n in ("eer", "auc", "swap", "threshold_at_metric", "bootstrap_sample", "bootstrap_metric", "bootstrap_ci"):
        sess.wrap(S.Scores, n, "M-state", state_post(n), pre=pre)
    # ConfusionMatrix queries must leave the matrix and the class list alone as well
    CMmod = sys.modules["score_analysis.cm"]

    def cm_pre(args, kwargs):
        self = args[0]
        return np.asarray(self.matrix).tobytes(), np.asarray(self.matrix).shape, str(np.asarray(self.matrix).dtype), [str(c) for c in self.classes], self.binary

    def cm_post(name):
        def post(snap, args, kwargs, res):
            sess.check("M-state", cm_pre(args, kwargs) == snap, "a ConfusionMatrix query mutated the matrix or the classes", lambda: {"method": name}, sig=("ConfusionMatrix", name), key="state-cm")

        return post

    for n in ("one_vs_all", "pop", "accuracy", "error_rate", "tp", "tn", "fp", "fn", "p", "n", "top", "ton", "tpr", "tnr", "fpr", "fnr", "tar", "frr", "trr", "far",
              "tpr_ci", "tnr_ci", "fpr_ci", "fnr_ci", "topr", "tonr", "acceptance_rate", "rejection_rate", "ppv", "npv", "fdr", "for_", "class_accuracy", "class_error_rate"):
        sess.wrap(CMmod.ConfusionMatrix, n, "M-state", cm_post(n), pre=cm_pre)
    for n in GROUP_RATE_NAMES:
        sess.wrap(G.GroupScores, n, "M-state", shape_post(n, "group"), pre=pre)
    for n in ("group_cm", "swap", "bootstrap_sample", "__getitem__"):
        sess.wrap(G.GroupScores, n, "M-state", state_post("GroupScores." + n), pre=pre)
