"""
Seeded workload generators, organised by named *input classes* (DESIGN.md §2.4).
Everything is drawn from a numpy Generator handed in by the runner; nothing here
touches the NumPy global RNG (that one belongs to the library under observation).
"""

from __future__ import annotations

import itertools

import numpy as np

CFG = list(itertools.product(["pos", "neg"], ["pos", "neg"]))  # (score_class, equal_class)

SCORE_KINDS = [
    "gauss",  # tie-free
    "lattice",  # small-integer lattice as floats: many ties within and across classes
    "intdtype",  # integer dtype
    "float32",
    "pool5",  # five distinct values
    "ulp",  # values one ulp apart
    "uniform01",
    "separated",  # perfectly separated in the direction of score_class=pos
    "inverted",
    "touching",  # max of one class == min of the other
    "scaled",  # lattice * 2^k + offset
    "perm",  # permutation of distinct integers (tie-free, exactly representable)
    "mixed_int_float",  # one class integer dtype, the other non-integer floats (dtype promotion when the classes are pooled)
    "mixed_f32_f64",  # one class float32, the other float64
    "uint",  # unsigned integer dtypes (quantised scores): differences wrap, negation is not available
    "int8wide",  # int8 spanning the whole dtype range: differences overflow
    "float16",
    "huge",  # magnitudes near the top of the float64 range (sums of two scores may overflow, products do)
    "subnormal",  # magnitudes in the subnormal range (relative epsilons vanish, spacing is absolute)
    "clustered",  # tiny spread around a large offset (spread/|offset| down to 1e-12): absolute/relative "closeness" shortcuts misfire
    "negzero",  # scores rounded to one decimal: +0.0 and -0.0 both occur (equal as numbers, different bit patterns)
]


def scores(rng, min_pos=0, min_neg=0, maxn=40, kinds=None, big=False):
    kind = str(rng.choice(kinds if kinds is not None else SCORE_KINDS))
    if big:
        npos = int(rng.integers(100, 400))
        nneg = int(rng.integers(100, 400))
    else:
        npos = int(rng.integers(min_pos, maxn + 1))
        nneg = int(rng.integers(min_neg, maxn + 1))
        if rng.random() < 0.15:
            npos = max(min_pos, min(npos, int(rng.integers(0, 3))))
        if rng.random() < 0.15:
            nneg = max(min_neg, min(nneg, int(rng.integers(0, 3))))
    if kind == "gauss":
        pos = rng.normal(0.5, 1, npos)
        neg = rng.normal(-0.5, 1, nneg)
    elif kind == "lattice":
        k = int(rng.integers(2, 7))
        pos = rng.integers(0, k, npos).astype(float)
        neg = rng.integers(0, k, nneg).astype(float)
    elif kind == "intdtype":
        pos = rng.integers(-3, 8, npos)
        neg = rng.integers(-3, 8, nneg)
    elif kind == "float32":
        pos = rng.normal(0.5, 1, npos).astype(np.float32)
        neg = rng.normal(-0.5, 1, nneg).astype(np.float32)
        if rng.random() < 0.5:
            pos = np.round(pos, 1)
            neg = np.round(neg, 1)
    elif kind == "pool5":
        base = rng.normal(0, 1, 5)
        pos = rng.choice(base, npos)
        neg = rng.choice(base, nneg)
    elif kind == "ulp":
        c = float(rng.choice([1.0, 0.1, -2.5, 1e-3, 3.0, 1024.0]))
        ladder = [c]
        for _ in range(5):
            ladder.append(np.nextafter(ladder[-1], np.inf))
        ladder = np.array(ladder)
        pos = rng.choice(ladder, npos)
        neg = rng.choice(ladder, nneg)
    elif kind == "uniform01":
        pos = rng.uniform(0, 1, npos)
        neg = rng.uniform(0, 1, nneg)
    elif kind in ("separated", "inverted", "touching"):
        allv = np.sort(rng.normal(0, 1, npos + nneg)) if rng.random() < 0.5 else np.sort(rng.integers(0, 9, npos + nneg).astype(float))
        if kind == "inverted":
            pos, neg = allv[:npos], allv[npos:]
        else:
            neg, pos = allv[:nneg], allv[nneg:]
        if kind == "touching" and npos and nneg:
            if rng.random() < 0.5:
                pos = pos.copy()
                pos[0] = neg[-1]
            else:
                neg = neg.copy()
                neg[0] = pos[-1] if neg[0] > pos[-1] else neg[0]
    elif kind == "scaled":
        k = float(2.0 ** int(rng.integers(-6, 12)))
        off = float(rng.integers(-1000, 1000))
        pos = rng.integers(0, 6, npos).astype(float) * k + off
        neg = rng.integers(0, 6, nneg).astype(float) * k + off
    elif kind == "mixed_int_float":
        ints = rng.integers(0, 4, nneg if rng.random() < 0.5 else npos)
        if len(ints) == nneg:
            pos, neg = rng.uniform(0, 3, npos), ints
        else:
            pos, neg = ints, rng.uniform(0, 3, nneg)
        if len(ints) != (nneg if neg is ints else npos):  # pragma: no cover
            pos, neg = rng.uniform(0, 3, npos), rng.integers(0, 4, nneg)
    elif kind == "uint":
        dt = [np.uint8, np.uint16, np.uint64][int(rng.integers(0, 3))]
        if rng.random() < 0.5:
            pos, neg = rng.integers(0, 200, npos).astype(dt), rng.integers(0, 200, nneg).astype(dt)
        else:  # distinct values
            if npos + nneg > 250:
                dt = np.uint16
            allv = rng.permutation(max(250, npos + nneg))[: npos + nneg].astype(dt)
            pos, neg = allv[:npos], allv[npos:]
        if rng.random() < 0.35 and len(pos) and len(neg) and pos.dtype.itemsize < 8:  # saturated scores: the dtype limits occur, possibly in both classes (uint64 limits are not exact floats)
            lim = np.iinfo(pos.dtype)
            for arr in (pos, neg):
                if rng.random() < 0.7:
                    arr[int(rng.integers(0, len(arr)))] = lim.max if rng.random() < 0.5 else lim.min
    elif kind == "float16":
        pos, neg = rng.normal(0.5, 1, npos).astype(np.float16), rng.normal(-0.5, 1, nneg).astype(np.float16)
    elif kind == "huge":
        sc_ = float(rng.choice([1e300, 2.0 ** 1000, 1.7e308]))
        if rng.random() < 0.5:
            pos, neg = rng.integers(-4, 9, npos) * (sc_ / 10), rng.integers(-8, 5, nneg) * (sc_ / 10)
        else:
            pos, neg = rng.uniform(-1, 1, npos) * sc_, rng.uniform(-1, 1, nneg) * sc_
        if rng.random() < 0.5 and npos and nneg:  # separated either way: midpoints of the two classes' extremes overflow
            allv = np.sort(np.concatenate([pos, neg]))
            pos, neg = (allv[nneg:], allv[:nneg]) if rng.random() < 0.5 else (allv[:npos], allv[npos:])
    elif kind == "subnormal":
        sc_ = float(rng.choice([5e-324, 1e-310, 2.0 ** -1040]))
        pos, neg = rng.integers(-4, 9, npos) * sc_, rng.integers(-8, 5, nneg) * sc_
    elif kind == "clustered":
        base = float(rng.choice([100.0, 1e6, -1e4, 1.0, 0.5]))
        spread = float(10.0 ** -rng.uniform(3, 10))
        pos, neg = base + spread * rng.normal(0.5, 1, npos), base + spread * rng.normal(-0.5, 1, nneg)
    elif kind == "negzero":
        w = float(rng.choice([0.02, 0.08, 0.3]))  # narrow: most of a class is one signed zero
        mp, mn = (float(x) for x in rng.choice([-0.02, 0.02], 2))
        pos, neg = np.round(rng.normal(mp, w, npos), 1), np.round(rng.normal(mn, w, nneg), 1)
    elif kind == "int8wide":
        pos, neg = rng.integers(-128, 128, npos).astype(np.int8), rng.integers(-128, 128, nneg).astype(np.int8)
        if rng.random() < 0.35 and len(pos) and len(neg):  # saturated scores in both classes
            for arr in (pos, neg):
                if rng.random() < 0.7:
                    arr[int(rng.integers(0, len(arr)))] = 127 if rng.random() < 0.5 else -128
    elif kind == "mixed_f32_f64":
        pos, neg = rng.normal(0.5, 1, npos), rng.normal(-0.5, 1, nneg)
        if rng.random() < 0.5:
            pos = pos.astype(np.float32)
        else:
            neg = neg.astype(np.float32)
    else:  # perm
        allv = rng.permutation(npos + nneg).astype(float)
        pos, neg = allv[:npos], allv[npos:]
    # arbitrary (unsorted) order on purpose
    pos = np.asarray(pos)[rng.permutation(len(pos))] if len(pos) else np.asarray(pos)
    neg = np.asarray(neg)[rng.permutation(len(neg))] if len(neg) else np.asarray(neg)
    return pos, neg, kind


EASY_POS = [0, 0, 0, 0, 1, 2, 3, 7, 50, 1000, 10 ** 6, 10 ** 9, 10 ** 10]  # incl. the documented use case: millions of easy samples beside a few hard ones
EASY_NEG = [0, 0, 0, 0, 1, 2, 5, 9, 100, 999, 10 ** 7, 3 * 10 ** 9, 2 * 10 ** 10]


def easy(rng, cap=None):
    ep = int(rng.choice(EASY_POS))
    en = int(rng.choice(EASY_NEG))
    if cap is not None:
        ep, en = min(ep, cap), min(en, cap)
    return ep, en


def cfg(rng):
    return CFG[int(rng.integers(0, 4))]


def shape(rng, maxdim=3, allow_zero=True):
    nd = int(rng.integers(0, maxdim + 1))
    lo = 0 if allow_zero else 1
    return tuple(int(x) for x in rng.integers(lo, 4, nd))


def thresholds(rng, allv, n=12, with_inf=True):
    """Hostile thresholds: at a score, one ulp either side, between, outside, +-inf."""
    allv = np.asarray(allv, dtype=float)
    out = [0.0, float(rng.normal(0, 2))]
    if with_inf:
        out += [-np.inf, np.inf]
    if len(allv):
        c = rng.choice(allv, min(4, n))
        out += list(c) + list(np.nextafter(c, np.inf)) + list(np.nextafter(c, -np.inf))
        lo, hi = allv.min(), allv.max()
        u = float(rng.random())
        out += [lo - 1.0, hi + 1.0, float(lo * (1 - u) + hi * u) if hi > lo else lo]  # no hi - lo: may overflow
        s = np.unique(allv)
        if len(s) > 1:
            j = int(rng.integers(0, len(s) - 1))
            out.append(s[j] / 2 + s[j + 1] / 2)
    out = np.array(out, dtype=float)
    return out[rng.permutation(len(out))]


def targets(rng, N, lo=0.0, hi=1.0, n=14):
    """Hostile targets for threshold setting; N = population of the metric."""
    k = rng.integers(0, N + 1, 4)
    out = [
        -0.3, 0.0, 1.0, 1.7, float(rng.uniform(-0.2, 1.2)), float(rng.uniform(0, 1)), float(rng.uniform(0, 1)),
        float(rng.uniform(0, 1.0 / N)), 1.0 - float(rng.uniform(0, 1.0 / N)),
        float(rng.uniform(lo, hi)), lo, hi,
        float(np.floor(rng.uniform(lo, hi) * N) / N),
    ] + [float(x) / N for x in k]
    out = np.array(out[:max(n, 4)] if n < len(out) else out, dtype=float)
    return out


def stat_class(pos, neg):
    """Small signature of a score pair: tie pattern, sizes, dtype."""
    pos = np.asarray(pos)
    neg = np.asarray(neg)
    tie_in = (len(np.unique(pos)) < len(pos)) or (len(np.unique(neg)) < len(neg))
    tie_x = bool(len(np.intersect1d(pos, neg)))

    def bucket(n):
        return "0" if n == 0 else "1" if n == 1 else "2-5" if n <= 5 else "6-40" if n <= 40 else "41-99" if n < 100 else "100+"

    return (bucket(len(pos)), bucket(len(neg)), "tw" if tie_in else "-", "tx" if tie_x else "-", pos.dtype.kind + neg.dtype.kind)


FORMS = ["array", "array", "array", "list", "tuple", "readonly", "strided", "fortran2d", "series"]


def apply_form(a, form):
    """Presents the same values in a different container / memory layout (the case stores `form`, so a replay rebuilds it)."""
    a = np.asarray(a)
    if form in (None, "array") or a.ndim == 0:
        return a
    if form == "list":
        return a.tolist()
    if form == "tuple":
        return tuple(a.tolist())
    if form == "readonly":
        b = a.copy()
        b.setflags(write=False)
        return b
    if form == "strided":  # non-contiguous view of a bigger buffer
        buf = np.empty(2 * a.size + 1, dtype=a.dtype)
        buf[::2][: a.size] = a.ravel()
        return buf[::2][: a.size].reshape(a.shape)
    if form == "series" and a.ndim == 1:  # a pandas Series with a non-default index: positional and label-based indexing differ
        import pandas as pd

        return pd.Series(a, index=(np.arange(a.size)[::-1] * 3 + 1))
    if form == "fortran2d" and a.ndim >= 2:
        return np.asfortranarray(a)
    return a


def int_form(seed, n):
    """The same integer as a plain int or as the numpy integer a computed value usually is (np.ceil(...).astype(int), an element of
    np.arange, a count read from an array): an integer argument must mean the same either way."""
    if n is None or isinstance(n, bool):
        return n
    k = (int(seed) // 3) % 5
    if k == 1:
        return np.int64(n)
    if k == 2 and -2 ** 31 <= n < 2 ** 31:
        return np.int32(n)
    if k == 3 and 0 <= n < 256:
        return np.uint8(n)
    if k == 4 and n >= 0:
        return np.arange(n, n + 1)[0]
    return int(n)
