"""
CLI of the runtime-monitoring checks.

    bin/check C07 [--tier quick|thorough] [--replay FILE]

exit 0  every in-scope monitored execution held (known findings are printed)
exit 1  + line "VIOLATION property=<id> replay=<path>"
exit 2  + line "INCONCLUSIVE property=<id> reason=..." (never folded into 0 or 1)
"""

from __future__ import annotations

import argparse
import faulthandler
import importlib
import json
import os
import shutil
import subprocess
import sys
import tempfile
import time
import warnings

VERIF_ROOT = os.path.dirname(os.path.dirname(os.path.abspath(__file__)))
REPO = os.path.realpath(os.environ.get("VERIF_REPO", "/repo"))


def _bootstrap_imports():
    """Make sure score_analysis is imported from $VERIF_REPO, not from site-packages."""
    sys.dont_write_bytecode = True
    if sys.path[0] != REPO:
        sys.path.insert(0, REPO)
    warnings.simplefilter("ignore")
    import score_analysis

    f = os.path.realpath(score_analysis.__file__)
    if not f.startswith(REPO + os.sep):
        return f"score_analysis imported from {f}, not from {REPO}"
    return None


class Ctx:
    """What a property module sees."""

    def __init__(self, sess, tier, seed, shard, nshards, workload):
        import numpy as np

        self.sess = sess
        self.tier = tier
        self.seed = seed
        self.shard = shard
        self.nshards = nshards
        self.workload = workload
        self.rng = np.random.default_rng([seed, shard, 7919])
        self.t0 = time.time()
        self.soft_limit = float(os.environ.get("VERIF_SOFT_LIMIT", 150 if tier == "quick" else 400))
        self.scale = float(os.environ.get("VERIF_SCALE", 1.0))

    def n(self, quick: int, thorough: int | None = None) -> int:
        """Number of cases for this shard."""
        v = quick if self.tier == "quick" else (thorough if thorough is not None else quick * 3)
        return max(1, int(v * self.scale))

    def out_of_time(self) -> bool:
        return time.time() - self.t0 > self.soft_limit


def run_shard(pid, tier, seed, shard, nshards, workload, replay=None):
    """Runs one workload in this process; returns the result dict."""
    from . import attach, codec, reach

    mod = importlib.import_module(f"vmon.props.{pid}")
    sess = attach.Session(pid)
    ctx = Ctx(sess, tier, seed, shard, nshards, workload)
    reach.reset()
    reach.start(REPO)
    t0 = time.time()
    executed = 0
    err = None
    try:
        mod.install(ctx)
        if replay is not None:
            case = codec.dec(replay)
            _exec_case(ctx, mod, case)
            executed = 1
        elif workload == "W2":
            executed = _run_repo_tests(ctx, mod)
        elif workload == "W3":
            for case in mod.scenarios(ctx):
                _exec_case(ctx, mod, case)
                executed += 1
        elif workload == "WX":
            for case in mod.exhaustive(ctx):
                _exec_case(ctx, mod, case)
                executed += 1
        else:
            for case in mod.cases(ctx):
                _exec_case(ctx, mod, case)
                executed += 1
                if executed % 16 == 0 and ctx.out_of_time():
                    sess.notes["stopped_by_soft_limit"] += 1
                    break
    except Exception as e:  # a driver bug: inconclusive, not a verdict
        import traceback

        err = f"{type(e).__name__}: {e}\n{traceback.format_exc()[-1500:]}"
    finally:
        sess.unwrap_all()
        reach.stop()
    res = sess.summary()
    res.update(
        pid=pid,
        tier=tier,
        seed=seed,
        shard=shard,
        workload=workload,
        executed=executed,
        wall_s=round(time.time() - t0, 3),
        reached=reach.counts(),
        driver_error=err,
        hashes=sorted(sess.case_hashes),
        case_errors=sess.case_errors,
    )
    return res


def _exec_case(ctx, mod, case):
    from . import codec

    sess = ctx.sess
    sess.current_case = _LazyCase(case)
    sess.current_case_info = None
    v0 = sum(m.violated for m in sess.monitors.values())
    try:
        nontrivial = mod.execute(ctx, case)
    except Exception as e:
        if sum(m.violated for m in sess.monitors.values()) > v0:
            # a monitor's on_exc handler has judged this exception: it is a recorded violation, not an unexplained abort
            sess.notes["cases_ended_by_judged_exception"] += 1
            sess.count_case(_fast_hash(case), True, None)
            return
        # The library (or the driver) raised in the middle of a case. Monitors with an on_exc handler have already
        # judged it if it is a property violation; otherwise the run is inconclusive. Either way, keep going.
        import traceback

        sess.notes["cases_aborted_by_exception"] += 1
        in_repo = any(os.path.realpath(fs.filename).startswith(REPO + os.sep) for fs in traceback.extract_tb(e.__traceback__))
        if getattr(mod, "RAISES_ARE_VIOLATIONS", False) and in_repo:  # raised by (or underneath) the library, not by the driver itself
            # every generated case of this property lies inside its quantifier: the API must answer, not raise
            tb = " <- ".join(f"{fs.name}:{fs.lineno}" for fs in traceback.extract_tb(e.__traceback__)[-5:])
            sess.check("R-noraise", False, "the library raised on an in-scope case", {"exc": repr(e), "where": tb}, key="raised-" + type(e).__name__)
            nontrivial = False
            sess.count_case(_fast_hash(case), False, None)
            return
        if len(sess.case_errors) < 5:
            sess.case_errors.append(f"{type(e).__name__}: {e} | " + " <- ".join(
                f"{fs.name}:{fs.lineno}" for fs in traceback.extract_tb(e.__traceback__)[-4:]))
        nontrivial = False
    if nontrivial is None:
        nontrivial = True
    sample = None
    if nontrivial and len(sess.samples) < 6:
        sample = codec.readable(case)
    sess.count_case(_fast_hash(case), bool(nontrivial), sample)


class _LazyCase(dict):
    """Encoded lazily: only cases attached to a violation are ever serialised."""

    def __init__(self, case):
        super().__init__()
        self._case = case
        self._enc = None

    def encoded(self):
        from . import codec

        if self._enc is None:
            self._enc = codec.enc(self._case)
        return self._enc


def _fast_hash(case) -> int:
    import hashlib

    import numpy as np

    h = hashlib.blake2b(digest_size=8)

    def feed(v):
        if isinstance(v, np.ndarray):
            h.update(str(v.dtype).encode())
            h.update(str(v.shape).encode())
            h.update(np.ascontiguousarray(v).tobytes() if v.dtype != object else repr(v.tolist()).encode())
        elif isinstance(v, dict):
            for k in sorted(v):
                if k.startswith("_"):  # bookkeeping keys (seeds, indices) do not make a case distinct
                    continue
                h.update(k.encode())
                feed(v[k])
        elif isinstance(v, (list, tuple)):
            h.update(b"[")
            for x in v:
                feed(x)
            h.update(b"]")
        else:
            h.update(repr(v).encode())

    feed(case)
    return int.from_bytes(h.digest(), "big") >> 1


def _run_repo_tests(ctx, mod):
    """W2: the repository's own test-suite, in-process, with this property's monitors on."""
    import pytest

    class _Plugin:
        def __init__(self):
            self.passed = 0
            self.failed = 0

        def pytest_runtest_logreport(self, report):
            if report.when == "call":
                if report.passed:
                    self.passed += 1
                elif report.failed:
                    self.failed += 1

        def pytest_runtest_setup(self, item):
            ctx.sess.current_case = None
            ctx.sess.current_case_info = {"repo_test": item.nodeid}

    plug = _Plugin()
    cwd = os.getcwd()
    os.chdir(REPO)
    try:
        with open(os.devnull, "w") as devnull:
            old = sys.stdout
            sys.stdout = devnull
            try:
                pytest.main(
                    ["-q", "-p", "no:cacheprovider", "-x" if False else "--no-header", "--timeout=900", os.path.join(REPO, "tests")],
                    plugins=[plug],
                )
            finally:
                sys.stdout = old
    finally:
        os.chdir(cwd)
    ctx.sess.notes["repo_tests_passed"] = plug.passed
    ctx.sess.notes["repo_tests_failed"] = plug.failed
    return plug.passed + plug.failed


# -------------------------------------------------------------------------------------


def _merge(results):
    import collections

    mons = {}
    for r in results:
        for name, d in r["monitors"].items():
            m = mons.setdefault(name, collections.Counter())
            for k, v in d.items():
                if k == "skip_reasons":
                    sr = m.setdefault("skip_reasons", collections.Counter()) if not isinstance(m.get("skip_reasons"), collections.Counter) else m["skip_reasons"]
                    sr.update(v)
                    m["skip_reasons"] = sr
                else:
                    m[k] += v
    monitors = {}
    for name, m in sorted(mons.items()):
        d = {k: int(m.get(k, 0)) for k in ("calls", "in_scope", "held", "violated", "skipped", "oracle_error")}
        if "skip_reasons" in m:
            d["skip_reasons"] = dict(m["skip_reasons"].most_common(8))
        monitors[name] = d
    reached = collections.Counter()
    sigs = collections.Counter()
    hashes = set()
    violations = []
    samples = []
    notes = collections.Counter()
    facets = collections.Counter()
    viol_keys = collections.Counter()
    oracle_errors = []
    driver_errors = []
    for r in results:
        reached.update(r["reached"])
        sigs.update(r["sig_counts"])
        hashes.update(r["hashes"])
        violations.extend(r["violations"])
        viol_keys.update(r["violation_keys"])
        notes.update(r["notes"])
        facets.update(r.get("facet_counts", {}))
        oracle_errors.extend(r["oracle_errors"])
        if r.get("driver_error"):
            driver_errors.append(f"[{r['workload']}#{r['shard']}] {r['driver_error']}")
        for ce in r.get("case_errors", []):
            driver_errors.append(f"[{r['workload']}#{r['shard']}] case aborted: {ce}")
        for s in r["samples"]:
            if len(samples) < 6:
                samples.append(s)
    return {
        "monitors": monitors,
        "reached": dict(reached),
        "sigs": sigs,
        "distinct": len(hashes),
        "violations": violations,
        "viol_keys": dict(viol_keys),
        "samples": samples,
        "notes": dict(notes),
        "facets": dict(facets),
        "oracle_errors": oracle_errors,
        "driver_errors": driver_errors,
        "executed": sum(r["executed"] for r in results),
        "nontrivial": sum(r["nontrivial"] for r in results),
        "trivial": sum(r["trivial"] for r in results),
        "workloads": [
            {"workload": r["workload"], "shard": r["shard"], "executed": r["executed"], "wall_s": r["wall_s"]} for r in results
        ],
    }


def _spawn_shards(pid, tier, seed, plan, timeout):
    """plan: list of (workload, shard). Runs up to 16 subprocesses at a time."""
    tmp = tempfile.mkdtemp(prefix=f"vmon-{pid}-")
    procs = []
    results = []
    problems = []
    try:
        env = dict(os.environ)
        env["PYTHONPATH"] = VERIF_ROOT
        env.setdefault("PYTHONHASHSEED", "0")
        pending = list(plan)
        running = []
        maxpar = int(os.environ.get("VERIF_JOBS", 16))
        while pending or running:
            while pending and len(running) < maxpar:
                wl, sh = pending.pop(0)
                out = os.path.join(tmp, f"{wl}-{sh}.json")
                cmd = [sys.executable, "-B", "-m", "vmon.runner", pid, "--tier", tier, "--workload", wl,
                       "--shard", str(sh), "--nshards", str(len(plan)), "--out", out]
                env2 = dict(env, VERIF_SEED=str(seed))
                p = subprocess.Popen(cmd, cwd=VERIF_ROOT, env=env2, stdout=subprocess.DEVNULL, stderr=subprocess.PIPE)
                running.append((p, wl, sh, out, time.time()))
            time.sleep(0.05)
            still = []
            for p, wl, sh, out, t0 in running:
                rc = p.poll()
                if rc is None:
                    if time.time() - t0 > timeout:
                        p.kill()
                        problems.append(f"watchdog: {wl}#{sh} exceeded {timeout}s")
                    else:
                        still.append((p, wl, sh, out, t0))
                    continue
                errtxt = p.stderr.read().decode(errors="replace")[-800:]
                if rc != 0 or not os.path.exists(out):
                    problems.append(f"shard {wl}#{sh} exit {rc}: {errtxt}")
                else:
                    with open(out) as f:
                        results.append(json.load(f))
            running = still
    finally:
        shutil.rmtree(tmp, ignore_errors=True)
    return results, problems


def _limit_memory():
    """A change that makes the library allocate per *easy* sample (billions) must end as a MemoryError inside the monitored
    call -- which R-noraise judges -- and not as an OOM kill of the whole check. The unchanged library stays far below this."""
    try:
        import resource

        lim = int(float(os.environ.get("VERIF_MEM_GIB", 4)) * 2**30)
        soft, hard = resource.getrlimit(resource.RLIMIT_AS)
        if hard != resource.RLIM_INFINITY:
            lim = min(lim, hard)
        resource.setrlimit(resource.RLIMIT_AS, (lim, hard))
    except Exception:
        pass


def main(argv=None):
    ap = argparse.ArgumentParser()
    ap.add_argument("pid")
    ap.add_argument("--tier", default=os.environ.get("VERIF_TIER", "quick"), choices=["quick", "thorough"])
    ap.add_argument("--replay")
    ap.add_argument("--workload", default=None)
    ap.add_argument("--shard", type=int, default=0)
    ap.add_argument("--nshards", type=int, default=1)
    ap.add_argument("--out")
    args = ap.parse_args(argv)
    pid = args.pid
    seed = int(os.environ.get("VERIF_SEED", "0") or 0)

    faulthandler.enable()
    _limit_memory()
    problem = _bootstrap_imports()
    if problem:
        print(f"INCONCLUSIVE property={pid} reason={problem}")
        return 2

    from . import report

    if args.out:  # child shard
        faulthandler.dump_traceback_later(float(os.environ.get("VERIF_HARD_LIMIT", 1500)), exit=True)
        res = run_shard(pid, args.tier, seed, args.shard, args.nshards, args.workload or "W1")
        with open(args.out, "w") as f:
            json.dump(res, f, default=str)
        return 0

    t0 = time.time()
    if args.replay:
        with open(args.replay) as f:
            rep = json.load(f)
        case = rep["case"] if "case" in rep else rep
        res = run_shard(pid, args.tier, seed, 0, 1, "replay", replay=case)
        merged = _merge([res])
        return report.finish(pid, args.tier, seed, merged, [], time.time() - t0, replay_mode=True)

    mod = importlib.import_module(f"vmon.props.{pid}")
    problems = []
    if args.tier == "quick":
        faulthandler.dump_traceback_later(float(os.environ.get("VERIF_HARD_LIMIT", 900)), exit=True)
        results = [run_shard(pid, "quick", seed, 0, 1, "W1")]
        for wl in getattr(mod, "QUICK_EXTRA", []):
            results.append(run_shard(pid, "quick", seed, 0, 1, wl))
        faulthandler.cancel_dump_traceback_later()
    else:
        nsh = int(os.environ.get("VERIF_SHARDS", getattr(mod, "THOROUGH_SHARDS", 16)))
        plan = [("W1", i) for i in range(nsh)]
        for wl in getattr(mod, "THOROUGH_EXTRA", []):
            plan.append((wl, 0))
        results, problems = _spawn_shards(pid, "thorough", seed, plan, timeout=float(os.environ.get("VERIF_HARD_LIMIT", 1500)))
    merged = _merge(results)
    return report.finish(pid, args.tier, seed, merged, problems, time.time() - t0)


if __name__ == "__main__":
    sys.exit(main())
