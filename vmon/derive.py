"""
Objects with a *history*: the same Scores content, reached through the library's own object-producing operations instead of
the plain constructor (swap of a mirror image that has already answered queries, double swap, from_labels, queries issued in
another order first). Anything an object memoises, shares or marks as sorted must not change what it later answers.
"""

from __future__ import annotations

import numpy as np

VIAS = ["ctor", "ctor", "ctor", "swap_warm", "swap_fresh", "swap2", "from_labels", "queried_before", "queried_before",
        "sample_replacement", "sample_smoothing", "sample_single_pass", "sample_swap", "replaced", "relabelled", "relabelled", "fraud_view"]
FLIP = {"pos": "neg", "neg": "pos"}
_THR = ["tpr", "fnr", "tnr", "fpr", "topr", "tonr"]


def _warm(obj, seed):
    """A few queries of every kind (results discarded)."""
    import numpy as _np
    from score_analysis import BootstrapConfig

    r = _np.array([0.0, 0.31, 0.5, 1.0])
    # which queries come first, and which are left out, is part of the history: drawn per case
    rs = _np.random.default_rng(seed)
    order = [_THR[i] for i in rs.permutation(len(_THR))][: int(rs.integers(1, len(_THR) + 1))]
    for m in order:
        try:
            getattr(obj, "threshold_at_" + m)(r)
        except ValueError:
            pass  # empty relevant class
    if len(obj.pos) and len(obj.neg):
        try:
            obj.eer()
        except ValueError:
            pass  # the root search gives up on scores in the subnormal range (outside C06's "moderate magnitude"); a warm-up, not a check
        obj.auc()
        _np.random.seed(seed)
        obj.bootstrap_sample(BootstrapConfig(sampling_method="replacement"))
    obj.cm(_np.array([0.0, 1.0]))


DOC_DEFAULTS = {"nb_easy_pos": 0, "nb_easy_neg": 0, "score_class": "pos", "equal_class": "pos", "pos_label": 1, "method": "linear", "x_axis": "fpr", "alpha": 0.05}


def call_form(seed, kwargs):
    """The documented defaults are part of the interface: an argument whose value *is* its documented default may just as well
    be left out. Which ones are left out is drawn per case (and for some cases every argument is spelled out)."""
    form = (int(seed) * 2654435761 >> 7) % 4
    if form == 0:
        return dict(kwargs)
    out = {}
    for i, (k, v) in enumerate(kwargs.items()):
        dflt = DOC_DEFAULTS.get(k, None)
        is_default = k in DOC_DEFAULTS and (str(getattr(v, "value", v)) == str(dflt) if isinstance(dflt, str) else (type(v) in (int, float) and v == dflt))
        if is_default and (form == 1 or (int(seed) >> i) & 1):
            continue
        out[k] = v
    return out


def build(pos, neg, ep, en, sc, ec, via, seed=0):
    from score_analysis import Scores

    if via in ("swap_warm", "swap_fresh"):
        parent = Scores(neg, pos, nb_easy_pos=en, nb_easy_neg=ep, score_class=FLIP[sc], equal_class=FLIP[ec])
        if via == "swap_warm":
            _warm(parent, seed)
        return parent.swap()
    if via == "swap2":
        return Scores(pos, neg, nb_easy_pos=ep, nb_easy_neg=en, score_class=sc, equal_class=ec).swap().swap()
    if via == "from_labels":
        pos_a, neg_a = np.asarray(pos), np.asarray(neg)
        labels = np.concatenate([np.ones(len(pos_a), dtype=int), np.zeros(len(neg_a), dtype=int)])
        allv = np.concatenate([pos_a, neg_a]) if len(pos_a) + len(neg_a) else np.zeros(0)
        perm = np.random.default_rng(seed).permutation(len(allv))
        return Scores.from_labels(labels[perm], allv[perm], **call_form(seed, dict(nb_easy_pos=ep, nb_easy_neg=en, score_class=sc, equal_class=ec)))
    if via.startswith("sample_") and len(pos) and len(neg):
        # a bootstrap sample is a Scores object of its own (other content, but every property of Scores applies to it)
        from score_analysis import BootstrapConfig

        smoothing = via in ("sample_smoothing", "sample_swap")
        pa, na = (np.asarray(pos, dtype=float), np.asarray(neg, dtype=float)) if smoothing else (pos, neg)  # smoothing: float scores only
        src = Scores(pa, na, nb_easy_pos=ep, nb_easy_neg=en, score_class=sc, equal_class=ec)
        np.random.seed(seed)
        method = "single_pass" if via == "sample_single_pass" else "replacement"
        b = src.bootstrap_sample(BootstrapConfig(sampling_method=method, smoothing=smoothing, stratified_sampling="by_label" if seed % 2 else None))
        return b.swap() if via == "sample_swap" else b
    if via == "fraud_view":
        # the FraudScores subclass is a Scores object, too: every property of Scores holds for it (scores in [0,1], equal_class genuine=pos)
        allv_ = np.concatenate([np.asarray(pos, dtype=float), np.asarray(neg, dtype=float)])
        if ec == "pos" and allv_.size and float(allv_.min()) >= 0.0 and float(allv_.max()) <= 1.0:
            from score_analysis.applications import FraudScores

            return FraudScores(genuines=pos, frauds=neg, nb_easy_genuines=ep, nb_easy_frauds=en, score_class="genuine" if sc == "pos" else "fraud")
        via = "ctor"
    if via == "relabelled":
        # built under another configuration, queried, then its public label fields re-assigned with the plain strings the
        # constructor accepts: it must now behave exactly like a fresh object of the new configuration
        rs = np.random.default_rng(seed)
        o_sc, o_ec = [("pos", "pos"), ("pos", "neg"), ("neg", "pos"), ("neg", "neg")][int(rs.integers(0, 4))]
        obj = Scores(pos, neg, nb_easy_pos=ep, nb_easy_neg=en, score_class=o_sc, equal_class=o_ec)
        if rs.random() < 0.5:
            _warm(obj, seed)
        obj.score_class, obj.equal_class = str(sc), str(ec)
        return obj
    if via == "replaced":
        # the object held other scores (other class sizes), answered every kind of query about them, and then had its score arrays
        # replaced through the public attributes (what the FraudScores setters do); sorted, as the class keeps them
        from score_analysis import roc

        rs = np.random.default_rng(seed)
        obj = Scores(rs.normal(0, 1, int(rs.integers(1, 9))), rs.normal(0, 1, int(rs.integers(1, 9))), nb_easy_pos=ep, nb_easy_neg=en, score_class=sc, equal_class=ec)
        _warm(obj, seed)
        obj.threshold_at_metric(0.5, "fnr")
        roc(obj, nb_points=None)
        obj.pos, obj.neg = np.sort(np.asarray(pos)), np.sort(np.asarray(neg))
        return obj
    from . import gen as _gen

    # counts read from an array are numpy integers of whatever width the array has: they mean the same number
    s = Scores(pos, neg, **call_form(seed, dict(nb_easy_pos=_gen.int_form(seed // 11, ep), nb_easy_neg=_gen.int_form(seed // 13, en), score_class=sc, equal_class=ec)))
    if via == "queried_before":
        _warm(s, seed)
    return s
