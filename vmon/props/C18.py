"""C18 — showbias reports per group the metric of exactly that group's rows, one scale."""

from __future__ import annotations

import math

import numpy as np

from .. import gen, monitors
from .. import refmodel as R

PID = "C18"
ANCHORS = ["showbias.py:showbias", "showbias.py:_apply_normalization", "showbias.py:_get_group_index", "showbias.py:_validate_column_inputs",
           "showbias.py:showbias.<locals>.calculate_group_metric", "showbias.py:showbias.<locals>.calculate_metric",
           "group_scores.py:GroupScores.group_cm"]
DECIDING = {"R-showbias": 2064}
THOROUGH_EXTRA = ["W2"]
RULE = (
    "Every case builds a DataFrame and calls showbias under np.random.seed; M-bs records the bootstrap samples drawn and M-bci the interval "
    "computation. Oracle R-showbias: reference per-group value straight from the rows (group tuple -> filtered labels/scores -> pure-Python "
    "counting by the decision rule -> metric formula from the four cells); row labels == the distinct group tuples of the frame, columns == "
    "thresholds; 'by_overall' = / whole-frame metric, 'by_min' = / column minimum (NaN-propagating), unchanged where the divisor is 0; with "
    "bootstrap: same labels, lower <= upper, limits == stdlib reference formula applied to the normalised replicates recomputed by counting on "
    "every recorded sample with the *reported* value as estimate (for 'by_overall' both readings of 'normalised replicate' are accepted). "
    "W1: 1-3 group columns, 1-5 values each incl. values containing '_', spaces, unicode; groups lacking a class; 30 scalar ConfusionMatrix "
    "metric names; scalar/list/array thresholds incl. thresholds equal to a score; 3 normalisations; bootstrap quantile/bc/bca, 20-120 samples, "
    "stratification None/by_label/by_group; int and string labels; 4 cfg. Non-trivial: >= 2 groups and both labels present; distinct = hash of inputs."
    " Build-phase additions: label spellings 1/0/2/True/False/''/'y', reversed frame column order, unrelated columns with gaps, a frame analysed before and edited in place."
)
ASSUMPTIONS = ["string group values, finite scores, >= 1 row per group", "NumPy global RandomState seeded per case",
               "the C13 reference model for the interval formula"]

COUNTS = {
    "tp": lambda m: m[0][0], "fn": lambda m: m[0][1], "fp": lambda m: m[1][0], "tn": lambda m: m[1][1],
    "p": lambda m: m[0][0] + m[0][1], "n": lambda m: m[1][0] + m[1][1], "top": lambda m: m[0][0] + m[1][0], "ton": lambda m: m[0][1] + m[1][1],
    "pop": lambda m: m[0][0] + m[0][1] + m[1][0] + m[1][1],
}
RATES = ["tpr", "tnr", "fpr", "fnr", "tar", "frr", "trr", "far", "topr", "tonr", "acceptance_rate", "rejection_rate", "ppv", "npv", "fdr", "for_",
         "accuracy", "error_rate"]
METRICS = list(COUNTS) + RATES + ["class_accuracy", "class_error_rate"]
VALUE_POOL = ["A", "B", "female", "male", "a_b", "c", "a", "b_c", "x y", "ß", "_", "18-25", "p_", "10", "9", "1", "AB", "a b", "US", "US-East"]


def metric_ref(name, m):
    if name in COUNTS:
        return float(COUNTS[name](m))
    if name == "class_accuracy":
        name = "accuracy"
    if name == "class_error_rate":
        name = "error_rate"
    return R.rate(name, m)


def install(ctx):
    monitors.install_bs(ctx.sess, facets=(), keep=True)
    monitors.install_bci(ctx.sess, keep=True)


def cases(ctx):
    rng = ctx.rng
    for i in range(ctx.n(800, 1500)):
        ncol = int(rng.choice([1, 1, 2, 3]))
        clean = rng.random() < 0.7  # no join character in any value
        pool = [v for v in VALUE_POOL if "_" not in v] if clean else VALUE_POOL
        cols = {}
        nrows = int(rng.choice([4, 8, 20, 60, 150, 400], p=[.1, .15, .25, .25, .15, .1]))
        for c in range(ncol):
            vals = [str(x) for x in rng.choice(pool, int(rng.integers(1, 4 if ncol > 1 else 6)), replace=False)]
            if rng.random() < 0.2:  # "any characters": a value that differs from another one only by leading / trailing whitespace or case
                vals.append(vals[0] + str(rng.choice([" ", "\t", "  "])) if rng.random() < 0.6 else str(rng.choice([" " + vals[0], vals[0].swapcase(), vals[0] + "."])))
                vals = list(dict.fromkeys(vals))
            cols[f"g{c}"] = [str(x) for x in rng.choice(vals, nrows)]
        kind = str(rng.choice(["uniform", "lattice", "gauss", "intscale", "intscale"]))
        if kind == "uniform":
            score = rng.uniform(0, 1, nrows)
        elif kind == "intscale":  # an integer score column (0..100 scale, or uint8 / bool decisions) queried at float thresholds
            dt_ = [np.int64, np.int32, np.uint8, np.bool_][int(rng.integers(0, 4))]
            score = (rng.integers(0, 101, nrows) if dt_ is not np.bool_ else rng.integers(0, 2, nrows)).astype(dt_)
        elif kind == "lattice":
            score = rng.integers(0, 6, nrows) / 5.0
        else:
            score = rng.normal(0, 1, nrows)
        f32 = rng.random() < 0.2
        if f32:  # narrow float score column (typical model output); thresholds stay float64
            score = score.astype(np.float32)
        lab = rng.integers(0, 2, nrows)
        if rng.random() < 0.2:  # some group loses a class
            g0 = cols["g0"][0]
            lab = np.where(np.asarray(cols["g0"]) == g0, 1, lab)
        strlab = rng.random() < 0.2
        nthr = int(rng.integers(1, 4))
        cand = np.concatenate([score.astype(float), rng.uniform(float(score.min()), float(score.max()), 3)])
        if f32:  # thresholds that are NOT representable in float32 but round onto a score there
            near = rng.choice(score.astype(float), 3) + rng.choice([-1e-9, 1e-9], 3)
            cand = np.concatenate([cand, near, near])
        thr = np.sort(rng.choice(cand, nthr, replace=False))
        if rng.random() < 0.5:  # thresholds in the order the user happens to list them
            nthr = int(rng.integers(3, 6)) if rng.random() < 0.6 else nthr
            thr = rng.choice(cand, nthr, replace=False)
        form = str(rng.choice(["list", "array", "scalar", "0d"]))
        if form in ("scalar", "0d"):
            thr = thr[:1]
        boot = bool(rng.random() < 0.45)
        sc, ec = gen.cfg(rng)
        yield {"cols": cols, "score": score, "label": lab, "strlab": bool(strlab), "metric": str(rng.choice(METRICS)), "thr": thr, "form": form,
               "normalize": [None, "by_overall", "by_min"][int(rng.integers(0, 3))], "boot": boot, "bm": str(rng.choice(["quantile", "bc", "bca"])),
               "nb_samples": int(rng.choice([20, 50, 120])), "strat": [None, "by_group", "by_label"][int(rng.integers(0, 3))],
               "alpha": float(rng.choice([0.05, 0.1, 0.32])), "sc": sc, "ec": ec, "default_cfg": bool(rng.random() < 0.2),
               "index": str(rng.choice(["range", "range", "shuffled", "duplicated", "strings", "permuted_range", "permuted_range"])), "extra_col": bool(rng.random() < 0.3),
               "gdtype": str(rng.choice(["plain", "plain", "plain", "cat_lex", "cat_perm", "cat_perm"])),
               "_seed": int(rng.integers(1 << 31))}


def _norm(raw, overall, normalize):
    """raw: (G,T) python lists; NumPy's semantics (NaN-propagating min, unchanged where divisor is 0)."""
    if normalize is None:
        return [row[:] for row in raw]
    T = len(raw[0])
    if normalize == "by_overall":
        den = overall
    else:
        den = []
        for t in range(T):
            col = [row[t] for row in raw]
            den.append(math.nan if any(v != v for v in col) else min(col))
    out = []
    for row in raw:
        out.append([(v if den[t] == 0 else (v / den[t] if den[t] == den[t] else math.nan)) for t, v in enumerate(row)])
    return out


def _close(a, b, tol):
    if a != a and b != b:
        return True
    if a != a or b != b:
        return False
    if math.isinf(a) or math.isinf(b):
        return a == b
    return abs(a - b) <= tol


def execute(ctx, case):
    import pandas as pd
    from score_analysis import BootstrapConfig, showbias

    sess = ctx.sess
    cols = case["cols"]
    gcols = list(cols)
    score = np.asarray(case["score"])  # keeps a float32 column float32; the reference compares the exact values in float64
    lab = np.asarray(case["label"])
    # how the positive class is spelled in the label column is the caller's business: 1 among 0/1 (the documented default), 0 among 0/1,
    # a string (also the empty string), True or False in a boolean column (an "is_negative" flag has pos_label=False)
    lk = (["y", "", "y"] if case["strlab"] else [1, 1, 0, True, False, 2])[(case["_seed"] // 5) % (3 if case["strlab"] else 6)]
    if isinstance(lk, str):
        labels, pos_label = np.where(lab == 1, lk, "n").astype(object), lk
    elif isinstance(lk, bool):
        labels, pos_label = ((lab == 1) if lk else (lab != 1)), lk
    else:
        labels, pos_label = np.where(lab == 1, lk, 1 if lk == 0 else 0), lk
    df = pd.DataFrame({**cols, "score": score, "label": labels})
    # the frame's index and unrelated columns are irrelevant to the result: rows are what counts
    # the container type of the group columns is irrelevant too: object/str columns, or pandas Categorical with any category order
    gd = case.get("gdtype", "plain")
    if gd != "plain":
        rs_ = np.random.default_rng(case["_seed"] + 17)
        for c in gcols:
            cats = sorted(set(cols[c]))
            if gd == "cat_perm":
                cats = [cats[i] for i in rs_.permutation(len(cats))]
            df[c] = pd.Categorical(cols[c], categories=cats, ordered=bool(gd == "cat_perm" and rs_.random() < 0.5))
    idx_kind = case.get("index", "range")
    if idx_kind == "permuted_range":  # what a frame looks like after sort_values()/sample(frac=1) without reset_index: labels 0..n-1 in another order
        df.index = np.random.default_rng(case["_seed"]).permutation(len(df))
    elif idx_kind == "shuffled":
        df.index = np.random.default_rng(case["_seed"]).permutation(len(df)) * 3 + 7
    elif idx_kind == "duplicated":
        df.index = np.arange(len(df)) // 2
    elif idx_kind == "strings":
        df.index = [f"row{(i * 7919) % len(df)}" for i in range(len(df))]
    if case.get("extra_col"):
        df.insert(0, "unrelated", np.arange(len(df))[::-1])
        if case["_seed"] % 2:
            # columns showbias is never told about may have gaps (missing values): the rows still belong to their groups
            gaps = np.random.default_rng(case["_seed"] + 3).random(len(df)) < 0.3
            df.insert(1, "age", np.where(gaps, np.nan, 30.0 + np.arange(len(df)) % 40))
            df.insert(2, "note", np.where(gaps[::-1], None, "x").astype(object))
    if len(gcols) > 1 and case["_seed"] % 3 == 0:
        # the order in which the group columns are *listed* defines the key, not the order the frame happens to hold them in
        df = df[list(df.columns)[::-1]]
    thr = np.asarray(case["thr"], dtype=float)
    form = case["form"]
    thr_arg = thr.tolist() if form == "list" else thr if form == "array" else float(thr[0]) if form == "scalar" else np.asarray(float(thr[0]))
    thr_list = thr.tolist()
    metric, normalize, boot, sc, ec = case["metric"], case["normalize"], case["boot"], case["sc"], case["ec"]
    group_arg = gcols[0] if len(gcols) == 1 else gcols
    tuples = [tuple(cols[c][i] for c in gcols) for i in range(len(score))]
    distinct = sorted(set(tuples))
    has_us = any("_" in v for t in distinct for v in t)
    base = {"nb_group_columns": len(gcols), "some_group_value_contains_underscore": has_us and len(gcols) > 1, "normalize": normalize, "bootstrap": boot,
            "metric": metric, "bootstrap_method": case["bm"], "stratified": case["strat"], "cfg": [sc, ec], "thresholds": thr_list,
            "groups": [list(t) for t in distinct][:12], "nb_rows": len(score)}
    sig = (len(gcols), "us" if base["some_group_value_contains_underscore"] else "-", normalize, boot, case["bm"] if boot else "-", case["strat"] if boot else "-",
           "count" if metric in COUNTS else "rate", form, sc, ec)

    def V(facet, what, **kw):
        d = dict(base, facet=facet, **kw)
        sess.check("R-showbias", False, what, d, sig=sig, key="showbias-" + facet)

    kw = dict(metric=metric, normalize=normalize, threshold=thr_arg, pos_label=pos_label)
    if pos_label == 1 and type(pos_label) is int and case["_seed"] % 2:
        del kw["pos_label"]  # the documented default
    if not case["default_cfg"]:
        kw.update(score_class=sc, equal_class=ec)
    else:
        sc, ec = "pos", "pos"
    if boot:
        strat = case["strat"]
        kw.update(bootstrap_ci=True, alpha=case["alpha"],
                  bootstrap_config=BootstrapConfig(nb_samples=case["nb_samples"], bootstrap_method=case["bm"], stratified_sampling=strat))
    if case["_seed"] % 4 == 2:
        # a history on one frame object: it was analysed before, with other contents (scores, labels and group values of other rows), and then
        # edited in place - same object, same shape, same column roles. The report is about the frame as it is now
        hist_cols = ["score", "label"] + gcols
        saved = {c_: df[c_].array.copy() for c_ in hist_cols}
        perm_ = np.random.default_rng(case["_seed"] + 99).permutation(len(df))
        with monitors.oracle_scope_ctx():
            for j_, c_ in enumerate(hist_cols):
                df[c_] = saved[c_][np.roll(perm_, j_)]
            try:
                np.random.seed(case["_seed"] + 1)
                showbias(df, group_arg, "label", "score", **kw)
            except Exception:  # noqa: BLE001 - the earlier frame is not what is judged here
                pass
            for c_ in hist_cols:
                df[c_] = saved[c_]
    np.random.seed(case["_seed"])
    sess.bs_log.clear()
    sess.bci_log.clear()
    sess.observe("R-showbias")
    try:
        r = showbias(df, group_arg, "label", "score", **kw)
    except Exception as e:
        V("crash", "showbias raised on an in-scope frame", exc=repr(e))
        return True

    # ---- reference values from the rows ----------------------------------------------
    is_pos = (lab == 1)

    def raw_for(mask_rows_pos, mask_rows_neg):
        return None

    def group_raw(pos_scores, neg_scores):
        return [metric_ref(metric, R.count_cm(pos_scores, neg_scores, t, sc, ec)) for t in thr_list]

    by_tuple = {}
    for t in distinct:
        rows = [i for i, tt in enumerate(tuples) if tt == t]
        by_tuple[t] = group_raw([float(score[i]) for i in rows if is_pos[i]], [float(score[i]) for i in rows if not is_pos[i]])
    overall = group_raw([float(s) for s, p in zip(score, is_pos) if p], [float(s) for s, p in zip(score, is_pos) if not p])
    raw = [by_tuple[t] for t in distinct]
    exp = dict(zip(distinct, _norm(raw, overall, normalize)))

    # ---- labels, columns, entries -------------------------------------------------------
    frames = [("values", r.values)] + ([("lower", r.lower), ("upper", r.upper)] if boot else [])
    ok_all = True
    for nm, fr in frames:
        if fr is None:
            V("ci_missing", f"{nm} frame missing although bootstrap intervals were requested")
            return True
        got_labels = [tuple(x) if isinstance(x, tuple) else (x,) for x in fr.index.tolist()]
        got_labels = [tuple(str(v) for v in t) for t in got_labels]
        names_ok = list(fr.index.names) == gcols
        cols_ok = [float(c) for c in fr.columns.tolist()] == thr_list
        if len(got_labels) != len(distinct):
            V("row_count", f"{nm}: number of rows differs from the number of distinct groups", got=got_labels[:12], frame=nm)
            ok_all = False
            continue
        if set(got_labels) != set(distinct) or len(set(got_labels)) != len(got_labels):
            V("row_labels", f"{nm}: row labels are not the group values of the frame", got=got_labels[:12], frame=nm)
            ok_all = False
            continue
        sess.check("R-showbias", names_ok, "index names are not the group columns", dict(base, facet="index_names", got=list(fr.index.names)), sig=sig, key="showbias-index_names")
        sess.check("R-showbias", cols_ok, "columns are not the thresholds", dict(base, facet="columns", got=[str(c) for c in fr.columns.tolist()]), sig=sig, key="showbias-columns")
    if not ok_all:
        return True
    got_labels = [tuple(str(v) for v in (x if isinstance(x, tuple) else (x,))) for x in r.values.index.tolist()]
    vals = r.values.values.astype(float)
    bad = None
    for gi, t in enumerate(got_labels):
        for ti in range(len(thr_list)):
            e, g = exp[t][ti], float(vals[gi, ti])
            if not _close(e, g, 1e-9 * max(1.0, abs(e) if e == e and not math.isinf(e) else 1.0)):
                bad = (t, thr_list[ti], g, e)
                break
        if bad:
            break
    if bad:
        V("entry", "entry differs from the metric computed directly from that group's rows", group=list(bad[0]), threshold=bad[1], got=bad[2], expected=bad[3])
        return True
    sess.check("R-showbias", True, "entries", None, sig=sig)
    if normalize == "by_min":
        for ti in range(len(thr_list)):
            col = [exp[t][ti] for t in distinct]
            if all(v == v for v in col) and min(col) != 0 and not any(math.isinf(v) for v in col):
                sess.check("R-showbias", abs(min(float(vals[gi, ti]) for gi in range(len(got_labels))) - 1.0) <= 1e-12,
                           "by_min: the smallest row is not 1", dict(base, facet="by_min_one"), sig=sig, key="showbias-by_min_one")

    # ---- bootstrap intervals ------------------------------------------------------------------
    if boot:
        lower = r.lower.values.astype(float)
        upper = r.upper.values.astype(float)
        both = ~(np.isnan(lower) | np.isnan(upper))
        if not np.all(lower[both] <= upper[both]):
            V("ci_order", "lower limit above upper limit")
            return True
        samples = [b for (src, cfg_, b) in sess.bs_log if hasattr(src, "pos_groups")]
        if len(samples) != case["nb_samples"]:
            V("ci_nb_samples", "number of bootstrap samples drawn differs from nb_samples", drawn=len(samples))
            return True
        # group keys as the library builds them, mapped back to tuples through the rows
        key_of = {t: "_".join(t) for t in distinct}
        if len(set(key_of.values())) != len(distinct):
            sess.skip("R-showbias", "colliding group keys (covered by the row-label facets)")
            return True
        reps_raw, reps_overall = [], []
        for b in samples:
            bp, bn = np.asarray(b.pos, dtype=float), np.asarray(b.neg, dtype=float)
            bpg, bng = np.asarray(b.pos_groups), np.asarray(b.neg_groups)
            reps_raw.append([group_raw(bp[bpg == key_of[t]].tolist(), bn[bng == key_of[t]].tolist()) for t in got_labels])
            reps_overall.append(group_raw(bp.tolist(), bn.tolist()))
        readings = []
        if normalize == "by_overall":
            readings.append([_norm(rr, overall, "by_overall") for rr in reps_raw])  # / original overall
            readings.append([_norm(rr, ov, "by_overall") for rr, ov in zip(reps_raw, reps_overall)])  # / the sample's own overall
        else:
            readings.append([_norm(rr, None, normalize) for rr in reps_raw])
        matched = False
        worst = None
        for reps in readings:
            this_ok = True
            for gi in range(len(got_labels)):
                for ti in range(len(thr_list)):
                    col = [reps[k][gi][ti] for k in range(len(reps))]
                    if any(math.isinf(v) for v in col if v == v):
                        continue
                    est = float(vals[gi, ti])
                    if case["bm"] != "quantile" and not math.isfinite(est):
                        continue
                    # The library computes replicates and estimate with the same formula, so mathematically equal values are
                    # bitwise equal there; recomputed by counting they may differ by an ulp, which would flip the tie count
                    # in the bias correction (fraction of replicates <= estimate). Snap such replicates onto the estimate.
                    # Error rates are computed by the library as 1 - x, so the rounding error is an ulp of 1, i.e. several
                    # ulps of a small rate; mathematically distinct values of these rational metrics differ by > 1e-6 relative
                    # for the frame sizes driven here (<= 400 rows).
                    if math.isfinite(est):
                        eps = max(8 * math.ulp(max(abs(est), 1e-300)), 1e-11 * abs(est))
                        col = [est if (v == v and abs(v - est) <= eps) else v for v in col]
                    lo_e, up_e = R.bootstrap_ci(col, est, case["alpha"], case["bm"])
                    fin = [v for v in col if v == v]
                    tol = 1e-9 * max(1.0, max((abs(v) for v in fin), default=1.0)) + 4e-14 * len(col) * ((max(fin) - min(fin)) if fin else 0.0)
                    if not (_close(lo_e, float(lower[gi, ti]), tol) and _close(up_e, float(upper[gi, ti]), tol)):
                        this_ok = False
                        if worst is None:  # report the mismatch of the first (documented) reading
                            worst = (got_labels[gi], thr_list[ti], [float(lower[gi, ti]), float(upper[gi, ti])], [lo_e, up_e], est)
                        break
                if not this_ok:
                    break
            if this_ok:
                matched = True
                break
        if not matched:
            V("ci_limits", "interval limits are not the CI formula applied to the normalised replicates with the reported value as estimate",
              group=list(worst[0]), threshold=worst[1], got=worst[2], expected=worst[3], estimate=worst[4])
            return True
        sess.check("R-showbias", True, "ci", None, sig=sig + ("ci",))
    sess.sig_counts[("case",) + sig] += 1
    return bool(len(distinct) >= 2 and 0 < int(is_pos.sum()) < len(is_pos))
