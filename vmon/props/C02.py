"""C02 — threshold setting round-trips within one sample; its methods are coherent."""

from __future__ import annotations

import numpy as np

from .. import derive, gen, monitors

PID = "C02"
ANCHORS = ["scores.py:Scores._invert_increasing_function", "scores.py:Scores._threshold_at_ratio",
           "scores.py:Scores.threshold_at_tpr", "scores.py:Scores.threshold_at_fnr", "scores.py:Scores.threshold_at_tnr",
           "scores.py:Scores.threshold_at_fpr", "scores.py:Scores.threshold_at_topr", "scores.py:Scores.threshold_at_tonr"]
RAISES_ARE_VIOLATIONS = True
DECIDING = {"M-thr": 327549, "R-alias": 3000}
THOROUGH_EXTRA = ["W2", "W3"]
RULE = (
    "Every threshold_at_* call (6 metrics + 6 aliases, 3 methods) is observed by M-thr. For 'linear' calls the monitor evaluates the "
    "metric (same object) at the returned threshold and 4 ulp either side and requires the clipped target to be bracketed within 1/N "
    "(N incl. easy samples); tie-free: |metric(t) - target| <= 1/N when t is >4 ulp from every score; it then calls 'lower' and 'higher' "
    "for the same targets and checks: each is a sample score or the sentinel, metric(lower) <= metric(higher), linear lies between "
    "(4 ulp), linear = convex combination weighted by frac(r*N) (circular weight; interior targets only); every call with >=2 targets: "
    "threshold monotone in r. W1: scores from 12 input classes (ties, ulp-neighbours, int/float32, N from 1), easy counts, 4 cfg, targets "
    "<0, 0, (0,1/N), grid k/N, off-grid, range ends, 1, >1 as arrays/scalars/lists. W3: EER bisection, roc and roc_with_ci traffic. "
    "Non-trivial: N >= 2 and some target strictly inside the achievable range; distinct = hash of (scores, easy, cfg, targets)."
    ' Build-phase additions: one-class sources (the other class only easy samples), targets as float32/2-d/non-C layouts, alias and default-method relations, numpy-integer easy counts.'
)
ASSUMPTIONS = ["finite scores, |score| <= 1e9", "thresholds compared up to 4 ulp as the property allows",
               "rates at a threshold are taken from the object's own rate methods (decided by C01)"]

METRICS = ["tpr", "fnr", "tnr", "fpr", "topr", "tonr"]
ALIAS = {"tpr": "tar", "fnr": "frr", "tnr": "trr", "fpr": "far", "topr": "acceptance_rate", "tonr": "rejection_rate"}


def install(ctx):
    monitors.install_thr(ctx.sess, facets={"roundtrip", "coherence", "monotone"})


def cases(ctx):
    rng = ctx.rng
    for i in range(ctx.n(420, 2200)):
        pos, neg, kind = gen.scores(rng, min_pos=1, min_neg=1, maxn=40, big=bool(ctx.tier == "thorough" and rng.random() < 0.08))
        ep, en = gen.easy(rng)
        sc, ec = gen.cfg(rng)
        if i % 14 == 5:
            # one class has no scored sample at all (but possibly easy ones): the setters of the other class and of the pooled
            # outcome rates (TOPR/TONR: their population is everything scored, plus the easy samples) still have a relevant class
            if rng.random() < 0.5:
                pos, ep = pos[:0], int(rng.choice([0, 1, 3, 40, ep]))
            else:
                neg, en = neg[:0], int(rng.choice([0, 1, 3, 40, en]))
            kind = kind + "+oneclass"
        yield {"pos": pos, "neg": neg, "ep": ep, "en": en, "sc": sc, "ec": ec, "kind": kind,
               "u": rng.uniform(0, 1, 12), "form": str(rng.choice(["array", "array", "array", "scalar", "list", "2d", "f32"])),
               "via": str(rng.choice(derive.VIAS)), "_seed": int(rng.integers(1 << 31))}


def scenarios(ctx):
    rng = ctx.rng
    for i in range(ctx.n(6, 14)):
        pos, neg, kind = gen.scores(rng, min_pos=3, min_neg=3, maxn=50, kinds=["gauss", "lattice", "uniform01", "perm", "pool5"])
        ep, en = gen.easy(rng, cap=50)
        sc, ec = gen.cfg(rng)
        yield {"pos": pos, "neg": neg, "ep": ep, "en": en, "sc": sc, "ec": ec, "kind": kind, "u": rng.uniform(0, 1, 12), "form": "traffic",
               "_seed": int(rng.integers(1 << 31))}


def _targets(s, metric, u):
    """Hostile targets built from the uniform draws u (so that the case is self-contained)."""
    N = monitors.population(s, metric)
    ends = np.asarray(getattr(s, metric)(np.array([-np.inf, np.inf])), dtype=float)
    lo, hi = float(ends.min()), float(ends.max())
    k = np.floor(u[:4] * (N + 1))
    return np.array([
        -0.3 * u[4], 0.0, 1.0, 1.0 + u[5], u[6], u[7], u[8] / N, 1.0 - u[9] / N, lo + (hi - lo) * u[10], lo, hi,
        np.floor((lo + (hi - lo) * u[11]) * N) / N, *(k / N),
        (k[0] + 0.5) / N,
    ], dtype=float)


def execute(ctx, case):
    from score_analysis import BootstrapConfig, Scores, roc, roc_with_ci

    with monitors.oracle_scope_ctx():  # the warm-up queries of a history are not part of what is judged here
        s = derive.build(case["pos"], case["neg"], case["ep"], case["en"], case["sc"], case["ec"], case.get("via", "ctor"), case.get("_seed", 0))
    form, u = case["form"], case["u"]
    if form == "traffic":
        np.random.seed(case["_seed"])
        s.eer()
        roc(s, nb_points=int(2 + u[0] * 30))
        roc_with_ci(s, nb_points=6, config=BootstrapConfig(nb_samples=4))
        return True
    nontrivial = False
    with monitors.oracle_scope_ctx():
        # a setter whose own class has no scored sample is outside the quantifier ("non-empty relevant class"): the library raises there
        tgs = {m: _targets(s, m, u) for m in METRICS if not ((m in ("tpr", "fnr") and len(s.pos) == 0) or (m in ("tnr", "fpr") and len(s.neg) == 0))}
    for m in METRICS:
        if m not in tgs:
            continue
        tg = tgs[m]
        N = monitors.population(s, m)
        nontrivial = nontrivial or N >= 2
        fn = getattr(s, "threshold_at_" + m)
        for method in ("linear", "lower", "higher"):
            if form == "scalar":
                for r in tg[4:9].tolist():
                    fn(r, method=method)
            elif form == "list":
                fn(tg.tolist(), method=method)
            elif form == "2d":
                g2 = np.resize(tg, (2, 8))
                fn(g2, method=method)
                fn(np.asfortranarray(g2), method=method)  # the same grid of targets in other memory layouts
                fn(np.ascontiguousarray(g2.T).T, method=method)
                fn(np.resize(tg, (2, 2, 4)).transpose(1, 0, 2), method=method)
            elif form == "f32":  # targets from a single-precision pipeline: dyadic rates, exact in float32 (and float16)
                dy = np.round(np.clip(tg, -0.25, 1.25) * 64) / 64
                fn(dy.astype(np.float32), method=method)
                fn(np.float32(dy[len(dy) // 2]), method=method)
                fn(dy.astype(np.float16), method=method)
            else:
                fn(tg, method=method)
        getattr(s, "threshold_at_" + ALIAS[m])(tg)
        # the alias is the same setter however its target and method are spelled (positional / keyword under the alias's own name)
        ctx.sess.observe("R-alias")
        ctx.sess.check("R-alias", np.array_equal(np.asarray(fn(tg)), np.asarray(fn(tg, method="linear")), equal_nan=True),
                       "the setter with method left out differs from method='linear' (the documented default)", lambda: {"metric": m, "targets": tg}, sig=("default-method", m), key="thr-default-method")
        for method in ("lower", "higher", "linear"):
            prim = np.asarray(fn(tg, method=method))
            by_kw = np.asarray(getattr(s, "threshold_at_" + ALIAS[m])(**{ALIAS[m]: tg, "method": method}))
            by_pos = np.asarray(getattr(s, "threshold_at_" + ALIAS[m])(tg, method=method))
            ctx.sess.check("R-alias", np.array_equal(prim, by_kw, equal_nan=True) and np.array_equal(prim, by_pos, equal_nan=True),
                           "alias setter differs from the primary setter (target by keyword / positional, same method)",
                           lambda: {"alias": ALIAS[m], "method": method, "targets": tg, "primary": prim, "alias_keyword": by_kw, "alias_positional": by_pos},
                           sig=("alias", ALIAS[m], method), key="thr-alias")
    ctx.sess.sig_counts[("case", case["sc"], case["ec"], case["kind"], form, case["ep"] > 0, case["en"] > 0)] += 1
    return nontrivial
