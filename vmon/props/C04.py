"""C04 — binary metrics obey their defining algebra, NaN rule and normal-approx CIs."""

from __future__ import annotations

import itertools

import numpy as np

from .. import monitors

PID = "C04"
ANCHORS = ["metrics.py:tpr", "metrics.py:tnr", "metrics.py:fpr", "metrics.py:fnr", "metrics.py:topr", "metrics.py:tonr", "metrics.py:ppv", "metrics.py:npv",
           "metrics.py:fdr", "metrics.py:for_", "metrics.py:accuracy", "metrics.py:error_rate", "metrics.py:tpr_ci", "metrics.py:tnr_ci", "metrics.py:fpr_ci",
           "metrics.py:fnr_ci", "utils.py:binomial_ci", "metrics.py:p", "metrics.py:n", "metrics.py:top", "metrics.py:ton", "metrics.py:pop"]
RAISES_ARE_VIOLATIONS = True
DECIDING = {"M-met": 181020, "R-met": 15085}
QUICK_EXTRA = ["WX"]
THOROUGH_EXTRA = ["WX", "W2"]
RULE = (
    "Every call of a score_analysis.metrics function and of utils.binomial_ci (also the name bound inside metrics.py) is observed by M-met: per "
    "element, value == numerator/denominator recomputed from the four cells (rtol 1e-12), NaN exactly where the denominator is 0, value in [0,1], "
    "output shape == leading shape; counts == sums of their cells; CIs == rate -/+ z(alpha/2)*sqrt(p(1-p)/n) with z from statistics.NormalDist, "
    "NaN exactly where the rate is, shape lead+(2,). Relations R-met per matrix through ConfusionMatrix(binary=True): P+N = TOP+TON = POP; "
    "complement pairs sum to 1 or are both NaN; CIs nested in alpha; CI of the complementary rate is the mirrored interval; aliases identical; "
    "class methods == module functions. W1: int and float matrices, leading shapes () to 3-d incl. size-0 axes, zero rows/columns/matrices, counts "
    "up to 1e12, fractional weights, alpha in (0.001,0.999) plus 1e-300..1e-3 and 1-1e-15..1-1e-3. WX: all 81 matrices over {0,1,2}. Non-trivial: some cell non-zero; distinct = hash."
    ' Build-phase additions: narrow integer matrices near the top of their type (exact int64 reference), extreme alphas, module-level and aliased interval defaults.'
)
ASSUMPTIONS = ["non-negative finite entries <= 1e12 (no overflow)", "statistics.NormalDist for z"]
EXHAUSTIVE_SUBSPACE = "all 81 2x2 matrices with entries in {0,1,2}, as int and as float, 3 alphas"
PAIRS = [("tpr", "fnr"), ("tnr", "fpr"), ("ppv", "fdr"), ("npv", "for_"), ("topr", "tonr"), ("accuracy", "error_rate")]
ALIASES = [("tpr", "tar"), ("fnr", "frr"), ("tnr", "trr"), ("fpr", "far"), ("topr", "acceptance_rate"), ("tonr", "rejection_rate")]
CI_PAIRS = [("tpr_ci", "fnr_ci"), ("tnr_ci", "fpr_ci"), ("fpr_ci", "tnr_ci"), ("fnr_ci", "tpr_ci")]
CI_ALIASES = [("tpr_ci", "tar_ci"), ("fnr_ci", "frr_ci"), ("tnr_ci", "trr_ci"), ("fpr_ci", "far_ci")]


def install(ctx):
    monitors.install_met(ctx.sess)


def _matrix(rng, lead):
    kind = int(rng.integers(0, 8))
    shp = (*lead, 2, 2)
    if kind == 0:
        m = rng.integers(0, 5, shp)
    elif kind == 1:
        m = rng.integers(0, 10 ** 6, shp)
    elif kind == 2:
        m = rng.uniform(0, 10, shp)
    elif kind == 3:
        m = rng.integers(0, 3, shp) * rng.integers(0, 2, shp)
    elif kind == 4:
        m = rng.uniform(0, 1, shp) * rng.integers(0, 2, shp)
    elif kind == 5:
        m = rng.integers(0, 10 ** 12, shp)
    elif kind == 7:
        # narrow integer cells near the top of their type: every sum of two or more cells lies outside the cell type's range
        dt = [np.uint8, np.int8, np.int16, np.uint16, np.int32, np.uint32][int(rng.integers(0, 6))]
        top = int(np.iinfo(dt).max)
        m = (top - rng.integers(0, max(2, top // 3), shp)).astype(dt)
        if rng.random() < 0.3 and m.size:
            m[..., int(rng.integers(0, 2)), int(rng.integers(0, 2))] = 0
    else:
        m = rng.integers(0, 4, shp)
        m[..., int(rng.integers(0, 2)), :] = 0  # an all-zero row
    return m, kind


def cases(ctx):
    rng = ctx.rng
    for i in range(ctx.n(700, 3000)):
        lead = tuple(int(x) for x in rng.integers(0, 4, int(rng.integers(0, 4))))
        m, kind = _matrix(rng, lead)
        lay = int(rng.integers(0, 6))
        if lay == 1:
            m = np.asfortranarray(m)
        elif lay == 2 and m.size:  # non-contiguous view of a bigger buffer
            big = np.zeros(m.shape[:-2] + (4, 4), dtype=m.dtype)
            big[..., ::2, ::2] = m
            m = big[..., ::2, ::2]
        elif lay == 3 and m.dtype.kind == "i":
            m = m.astype([np.int32, np.uint32, np.uint8][int(rng.integers(0, 3))]) if m.size == 0 or m.max() < 200 else m
        elif lay == 4 and m.dtype.kind == "f":
            m = m.astype(np.float32)
        a1, a2 = sorted(float(x) for x in rng.uniform(0.001, 0.999, 2))
        u = rng.random()
        if u < 0.15:  # extreme significance levels: all alpha in (0,1) are in scope
            a1 = float(10.0 ** -rng.uniform(3, 300))
        elif u < 0.25:
            a1, a2 = sorted([float(10.0 ** -rng.uniform(3, 300)), float(10.0 ** -rng.uniform(3, 300))])
        elif u < 0.32:
            a2 = float(1.0 - 10.0 ** -rng.uniform(3, 15.5))
        yield {"m": m, "kind": kind, "a1": a1, "a2": a2}


def exhaustive(ctx):
    for cells in itertools.product([0, 1, 2], repeat=4):
        for dt in (int, float):
            yield {"m": np.array(cells, dtype=dt).reshape(2, 2), "kind": 99, "a1": 0.05, "a2": 0.3}


def execute(ctx, case):
    # "a rate is NaN exactly when its denominator is zero" - in whatever floating-point error mode the caller runs: a fifth of the
    # cases run under np.errstate(all="raise") (a common debugging setting); the oracles keep their own errstate
    if int(np.asarray(case["m"]).sum() * 7 + np.asarray(case["m"]).size) % 5 == 0 and np.asarray(case["m"]).dtype.kind in "iu":
        with np.errstate(all="raise"):
            return _execute(ctx, case, strict=True)
    return _execute(ctx, case, strict=False)


def _execute(ctx, case, strict):
    from score_analysis import ConfusionMatrix
    from score_analysis import metrics as M

    sess = ctx.sess
    m, a1, a2 = case["m"], case["a1"], case["a2"]
    cm = ConfusionMatrix(matrix=m, binary=True)
    lead = m.shape[:-2]
    sig = (m.dtype.kind, "lead%d" % len(lead), case["kind"])
    w = lambda **kw: (lambda: dict({"matrix": m}, **kw))  # noqa: E731
    sess.observe("R-met")
    C = lambda ok, what, key, **kw: sess.check("R-met", bool(ok), what, w(**kw), sig=sig, key=key)  # noqa: E731
    rt = monitors._rtol_of(m)  # float32 matrices are computed in float32: identities hold to that accuracy
    at = 1e-12 if rt <= 1e-12 else 4 * rt
    at_ci = 1e-12 if rt <= 1e-12 else 4 * rt ** 0.5
    C(np.allclose(cm.p() + cm.n(), cm.pop(), rtol=rt) and np.allclose(cm.top() + cm.ton(), cm.pop(), rtol=rt), "P+N = TOP+TON = POP violated", "met-pop")
    for a, b in PAIRS:
        va, vb = np.asarray(getattr(cm, a)(), dtype=float), np.asarray(getattr(cm, b)(), dtype=float)
        s_ = va + vb
        C(np.array_equal(np.isnan(va), np.isnan(vb)) and np.all(np.isnan(s_) | (np.abs(s_ - 1) <= at)), "complementary rates do not sum to 1 / are not NaN together", "met-complement", pair=[a, b])
        C(np.array_equal(va, np.asarray(getattr(M, a)(m), dtype=float), equal_nan=True), "class method differs from the module function", "met-method", metric=a)
    for a, b in ALIASES:
        C(np.array_equal(np.asarray(getattr(cm, a)(), dtype=float), np.asarray(getattr(cm, b)(), dtype=float), equal_nan=True)
          and np.array_equal(np.asarray(getattr(M, a)(m), dtype=float), np.asarray(getattr(M, b)(m), dtype=float), equal_nan=True), "alias returns different values", "met-alias", pair=[a, b])
    for nm, comp in CI_PAIRS:
        ci = getattr(cm, nm)(alpha=a1)
        ci2 = getattr(cm, nm)(alpha=a2)
        cc = getattr(cm, comp)(alpha=a1)
        # the method is the module function at the alpha it was given - by keyword, positionally, or defaulted - whatever was asked before
        ci_pos = getattr(cm, nm)(a2)
        ci_def = getattr(cm, nm)()
        for got_, al_, how in ((ci, a1, "keyword, first call"), (ci2, a2, "keyword, after another alpha"), (ci_pos, a2, "positional"), (ci_def, 0.05, "default alpha after other alphas")):
            C(np.array_equal(np.asarray(got_, dtype=float), np.asarray(getattr(M, nm)(m, al_), dtype=float), equal_nan=True),
              "interval method differs from the module function at the requested alpha", "met-ci-method", ci=nm, alpha=al_, how=how)
        C(np.array_equal(np.asarray(getattr(M, nm)(m), dtype=float), np.asarray(getattr(M, nm)(m, 0.05), dtype=float), equal_nan=True),  # the bare call is judged by M-met, too
          "module interval function with alpha left out differs from alpha=0.05 (the documented default)", "met-ci-default", ci=nm)
        fin = ~np.isnan(ci[..., 0])
        C(np.all(ci[..., 0][fin] <= ci2[..., 0][fin] + 1e-15 + (at_ci if rt > 1e-12 else 0)) and np.all(ci[..., 1][fin] >= ci2[..., 1][fin] - 1e-15 - (at_ci if rt > 1e-12 else 0)), "intervals not nested in alpha", "met-ci-nested", ci=nm, alphas=[a1, a2])
        C(np.allclose(cc[..., 0], 1 - ci[..., 1], atol=at_ci, rtol=0, equal_nan=True) and np.allclose(cc[..., 1], 1 - ci[..., 0], atol=at_ci, rtol=0, equal_nan=True),
          "interval of the complementary rate is not the mirrored interval", "met-ci-mirror", ci=nm)
        C(np.all(ci[..., 0][fin] <= ci[..., 1][fin]), "interval lower above upper", "met-ci-order", ci=nm)
    for a, b in CI_ALIASES:
        C(np.array_equal(getattr(cm, a)(alpha=a1), getattr(cm, b)(alpha=a1), equal_nan=True) and np.array_equal(getattr(M, a)(m, a1), getattr(M, b)(m, a1), equal_nan=True)
          and np.array_equal(getattr(M, a)(m), getattr(M, b)(m), equal_nan=True) and np.array_equal(getattr(cm, a)(), getattr(cm, b)(), equal_nan=True),
          "CI alias returns different values (alpha given, or left at its default)", "met-ci-alias", pair=[a, b])
    sess.sig_counts[("case",) + sig] += 1
    return bool(m.size and m.max() > 0)
