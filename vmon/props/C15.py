"""C15 — ROC curves are genuine operating points, ordered along the chosen x-axis."""

from __future__ import annotations

import numpy as np

from .. import derive, gen, monitors

PID = "C15"
ANCHORS = ["roc_curve.py:roc", "roc_curve.py:_find_support_thresholds", "roc_curve.py:ROCCurve.tpr", "roc_curve.py:ROCCurve.tnr"]
RAISES_ARE_VIOLATIONS = True
DECIDING = {"M-roc": 24325}
THOROUGH_EXTRA = ["W2"]
RULE = (
    "Every roc() call (module function and the name re-exported by the package) is observed by M-roc: equal lengths; curve.fnr/fpr == the "
    "object's fnr/fpr at the curve thresholds (exact); the metric named by x_axis is non-decreasing (exact) for all 8 names and both score "
    "directions; every supplied threshold and the thresholds that threshold_at_fnr/fpr assign to every supplied rate are on the curve; nothing "
    "supplied: exactly nb_points points, or one per scored sample for None; tpr/tnr/far/frr/tar/trr are complements/aliases. W1: all 8 subsets "
    "of {fnr,fpr,thresholds} supplied as arrays or lists, nb_points in {None,1,2,3,10,11,100}, 12 score classes incl. ties, easy counts, 4 cfg. "
    "Non-trivial: >= 2 scored samples per class or points supplied; distinct = hash of inputs."
    ' Build-phase additions: numpy-integer nb_points, documented defaults left out, two large sources (10 001-35 000 samples) per run.'
)
ASSUMPTIONS = ["both classes non-empty, finite scores", "rates at thresholds come from the object's own methods (decided by C01), thresholds from threshold setting (C02/C03)"]


def install(ctx):
    monitors.install_roc(ctx.sess)


def cases(ctx):
    rng = ctx.rng
    for i in range(ctx.n(9000, 20000)):
        pos, neg, kind = gen.scores(rng, min_pos=1, min_neg=1, maxn=20, big=bool(ctx.tier == "thorough" and rng.random() < 0.05))
        ep, en = gen.easy(rng)
        sc, ec = gen.cfg(rng)
        kw = {}
        if rng.random() < 0.4:
            kw["thresholds"] = rng.normal(0, 2, int(rng.integers(1, 5)))
            u_ = rng.random()
            if u_ < 0.2:  # infinite thresholds are legal operating points (accept / reject everything)
                kw["thresholds"] = np.concatenate([kw["thresholds"], rng.choice([np.inf, -np.inf], int(rng.integers(1, 3)))])[rng.permutation(len(kw["thresholds"]) + 1)[: len(kw["thresholds"]) + 1]]
            elif u_ < 0.27:
                kw["thresholds"] = np.array([float(rng.choice([np.inf, -np.inf]))])
        if rng.random() < 0.4:
            kw["fnr"] = rng.uniform(0, 1, int(rng.integers(1, 5)))
        if rng.random() < 0.4:
            kw["fpr"] = np.concatenate([rng.uniform(0, 1, int(rng.integers(1, 4))), rng.choice([0.0, 1.0], 1)])
        if rng.random() < 0.3:
            kw = {k: [float(x) for x in v] for k, v in kw.items()}
        if not kw and rng.random() < 0.15:  # empty arrays supply no points
            kw = {str(rng.choice(["thresholds", "fnr", "fpr"])): np.zeros(0)}
        nbp = rng.choice([-1, 1, 2, 3, 10, 11, 100])
        if i in (7, 400):
            # a large evaluation set with nothing supplied and nb_points=None: still one point per scored sample (no thinning beyond some size)
            n_big = int(rng.choice([10001, 10500, 20011, 35000])) if i == 7 else int(rng.integers(10001, 12000))
            allv_ = rng.normal(0, 1, n_big).round(6)
            lab_ = rng.random(n_big) < float(rng.uniform(0.2, 0.8))
            pos, neg, kind, kw, nbp = allv_[lab_] + 0.8, allv_[~lab_], "large", {}, -1
        yield {"pos": pos, "neg": neg, "ep": ep, "en": en, "sc": sc, "ec": ec, "kind": kind, "kw": kw, "nb_points": None if nbp < 0 else int(nbp),
               "x_axis": str(rng.choice(monitors.X_AXES)), "pkg": bool(rng.random() < 0.5),
               "via": str(rng.choice(derive.VIAS)), "_seed": int(rng.integers(1 << 31))}


def execute(ctx, case):
    import score_analysis
    from score_analysis import Scores
    from score_analysis import roc_curve as RC

    with monitors.oracle_scope_ctx():
        s = derive.build(case["pos"], case["neg"], case["ep"], case["en"], case["sc"], case["ec"], case.get("via", "ctor"), case.get("_seed", 0))
    fn = score_analysis.roc if case["pkg"] else RC.roc
    kw_roc = derive.call_form(case["_seed"], dict(x_axis=case["x_axis"]))  # x_axis="fpr" is the documented default: it may be left out
    if case["nb_points"] == 100 and case["_seed"] % 2:
        A = fn(s, **kw_roc, **case["kw"])  # nb_points=100 is roc()'s documented default; M-roc knows it
    else:
        A = fn(s, nb_points=gen.int_form(case["_seed"], case["nb_points"]), **kw_roc, **case["kw"])  # judged by M-roc
    if case.get("_seed", 0) % 3 == 0:
        # a history across curves: evaluate (another view of) the object at the operating thresholds of the curve just returned;
        # M-roc re-inspects the kept curve A on every later call
        other = s if case["_seed"] % 2 else s.swap()
        fn(other, thresholds=A.thresholds, nb_points=None if case["_seed"] % 5 else 3, x_axis=monitors.X_AXES[case["_seed"] % len(monitors.X_AXES)])
        fn(s, thresholds=A.thresholds, fnr=A.fnr, nb_points=None, x_axis=case["x_axis"])
    ctx.sess.sig_counts[("case", case["sc"], case["ec"], case["kind"], tuple(sorted(case["kw"])), case["nb_points"], case["x_axis"])] += 1
    return bool(case["kw"] or (len(case["pos"]) >= 2 and len(case["neg"]) >= 2))
