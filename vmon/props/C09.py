"""C09 — virtual easy samples behave exactly like materialised extreme scores."""

from __future__ import annotations

import numpy as np

from .. import derive, gen, monitors

PID = "C09"
ANCHORS = ["scores.py:Scores.cm", "scores.py:Scores.hard_pos_ratio", "scores.py:Scores.hard_neg_ratio", "scores.py:Scores.easy_pos_ratio",
           "scores.py:Scores.easy_neg_ratio", "scores.py:Scores.hard_ratio", "scores.py:Scores.threshold_at_tpr", "scores.py:Scores.threshold_at_fnr",
           "scores.py:Scores.threshold_at_tnr", "scores.py:Scores.threshold_at_fpr", "scores.py:Scores.threshold_at_topr", "scores.py:Scores.threshold_at_tonr",
           "scores.py:Scores.auc"]
RAISES_ARE_VIOLATIONS = True
DECIDING = {"R-easy": 10533}
RULE = (
    "Per case the driver builds the object declaring k easy positives / m easy negatives and the object in which those k+m samples are actual "
    "scores beyond all other scores on their own class's side (distinct values), issues the same monitored queries to both and R-easy compares: "
    "cm equal (exact) at every threshold inside the materialised range (at scores, +-1 ulp, between, at the range ends); full and partial AUC "
    "equal (1e-9); all six rates equal; for each of the six metrics and each target, if the materialised threshold lies within [min,max] of the "
    "relevant scored samples, the two thresholds agree (8 ulp + 1e-9*span). W1: k,m in 0..60 incl. (0,m),(k,0), 4 cfg, 12 score classes incl. "
    "ties, grid and off-grid targets; the declaring object is built by the constructor, or obtained by swap() from its mirror image (fresh, or after the parent answered threshold/EER/bootstrap queries), or queried in another order first. Non-trivial: k+m > 0; distinct = hash of inputs."
    " Build-phase additions: thresholds in every scalar/array form, replaced/relabelled/from_labels/double-swap histories, narrow integer scores against wider integer thresholds outside their type's range."
)
ASSUMPTIONS = ["both classes non-empty, finite scores", "materialised extremes are distinct and at distance >= 0.5 from the scored range"]
METRICS = ["tpr", "fnr", "tnr", "fpr", "topr", "tonr"]


def install(ctx):
    monitors.install_ctor_snapshot(ctx.sess)


def _execute_narrow(ctx, case):
    """Quantised scores kept in their narrow integer type (saturated at the ends of the type) against integer thresholds of a wider type: the
    thresholds between the scored range and the materialised easy samples lie outside the narrow type's range, where a conversion of the
    thresholds to the scores' type would misplace the saturated samples."""
    from score_analysis import Scores

    sess = ctx.sess
    pos, neg, ep, en, sc, ec = case["pos"], case["neg"], case["ep"], case["en"], case["sc"], case["ec"]
    s = Scores(pos, neg, nb_easy_pos=ep, nb_easy_neg=en, score_class=sc, equal_class=ec)
    ii = np.iinfo(pos.dtype)
    hi_ext = int(ii.max) + 1000 + np.arange(max(ep, en, 1))
    lo_ext = int(ii.min) - 1000 - np.arange(max(ep, en, 1))
    pe, ne = (hi_ext[:ep], lo_ext[:en]) if sc == "pos" else (lo_ext[:ep], hi_ext[:en])
    mt = Scores(np.concatenate([pos.astype(np.int64), pe]), np.concatenate([neg.astype(np.int64), ne]), score_class=sc, equal_class=ec)
    rs = np.random.default_rng(case["_seed"])
    thr = np.unique(np.concatenate([rs.integers(int(ii.min) - 900, int(ii.max) + 901, 12), [int(ii.min) - 1, int(ii.min), int(ii.max), int(ii.max) + 1, int(ii.min) - 500, int(ii.max) + 500]]))
    sig = (sc, ec, "narrowint", ep > 0, en > 0, str(pos.dtype))
    sess.observe("R-easy")
    C = lambda ok, what, key, **kw: sess.check("R-easy", bool(ok), what, dict({"pos": pos, "neg": neg, "easy": [ep, en], "cfg": [sc, ec], "dtype": str(pos.dtype)}, **kw), sig=sig, key=key)  # noqa: E731
    for form, x_ in (("int64 array", thr.astype(np.int64)), ("float array", thr.astype(float)), ("python int", int(thr[len(thr) // 3])), ("python int (high)", int(thr[-2])), ("int32 array", thr.astype(np.int32))):
        C(np.array_equal(s.cm(x_).matrix, mt.cm(x_).matrix), "confusion matrices differ between declared and materialised easy samples (narrow integer scores, wider thresholds)",
          "easy-cm-narrow", thresholds=np.asarray(x_), form=form, declared=s.cm(x_).matrix, materialised=mt.cm(x_).matrix)
    sess.sig_counts[("case",) + sig] += 1
    return bool(ep + en > 0)


def cases(ctx):
    rng = ctx.rng
    for i in range(ctx.n(1500, 5000)):
        if i % 15 == 7:
            dt_ = [np.uint8, np.int8, np.uint16, np.int16][int(rng.integers(0, 4))]
            ii_ = np.iinfo(dt_)
            def q_(n_):
                v = rng.integers(ii_.min, ii_.max + 1, n_)
                v[rng.random(n_) < 0.3] = int(rng.choice([ii_.min, ii_.max]))  # saturated at an end of the type
                return v.astype(dt_)
            sc_, ec_ = gen.cfg(rng)
            yield {"narrow": True, "pos": q_(int(rng.integers(1, 20))), "neg": q_(int(rng.integers(1, 20))), "ep": int(rng.choice([0, 1, 3, 20])), "en": int(rng.choice([0, 2, 5, 33])),
                   "sc": sc_, "ec": ec_, "kind": "narrowint", "_seed": int(rng.integers(1 << 31))}
            continue
        pos, neg, kind = gen.scores(rng, min_pos=1, min_neg=1, maxn=20, kinds=["gauss", "lattice", "intdtype", "pool5", "uniform01", "separated", "inverted", "touching", "scaled", "perm"])
        ep = int(rng.choice([0, 1, 2, 3, 7, 20, 60]))
        en = int(rng.choice([0, 1, 2, 5, 9, 33, 60]))
        sc, ec = gen.cfg(rng)
        # targets just inside the two ends of the hard range of each class (all-sample coordinates: easy ratio + hard ratio * h,
        # h = delta or 1 - delta), and their complements for the mirrored metrics
        edge = []
        for n_, e_ in ((len(pos), ep), (len(neg), en), (len(pos) + len(neg), ep), (len(pos) + len(neg), en)):
            tot = n_ + e_ if n_ in (len(pos), len(neg)) and (n_, e_) in ((len(pos), ep), (len(neg), en)) else len(pos) + len(neg) + ep + en
            dl = float(10.0 ** -rng.uniform(5, 13))
            for h in (dl, 1.0 - dl):
                t_ = (e_ + n_ * h) / tot
                edge += [t_, 1.0 - t_]
        edge = np.array(edge)[rng.permutation(len(edge))[:6]]
        yield {"pos": pos, "neg": neg, "ep": ep, "en": en, "sc": sc, "ec": ec, "kind": kind, "d": float(rng.uniform(0.5, 3)),
               "rs": np.concatenate([rng.uniform(0, 1, 6), rng.integers(0, 51, 3) / 50.0, edge]), "lu": np.sort(rng.uniform(0, 1, 2)), "_seed": int(rng.integers(1 << 31)),
               "via": str(rng.choice(["ctor", "ctor", "swap_of_warm_parent", "swap_of_fresh_parent", "queried_before", "replaced", "replaced", "relabelled", "from_labels", "swap2"]))}


def execute(ctx, case):
    from score_analysis import Scores

    if case.get("narrow"):
        return _execute_narrow(ctx, case)
    sess = ctx.sess
    pos, neg = np.asarray(case["pos"], dtype=float), np.asarray(case["neg"], dtype=float)
    ep, en, sc, ec, d = case["ep"], case["en"], case["sc"], case["ec"], case["d"]
    rng = np.random.default_rng(case["_seed"])
    allv = np.concatenate([pos, neg])
    lo_, hi_ = float(allv.min()), float(allv.max())
    span = max(hi_ - lo_, 1e-300)  # interpolation error scales with the spread of the scored samples (plus ulps of their magnitude, see close_thr)
    via = case.get("via", "ctor")
    if via.startswith("swap_of"):
        # the object under test is obtained by swap() from its mirror image - a history, not a constructor call; with
        # "warm" the parent has answered threshold / EER / bootstrap queries before (anything it memoised must not leak)
        flip = {"pos": "neg", "neg": "pos"}
        parent = Scores(neg, pos, nb_easy_pos=en, nb_easy_neg=ep, score_class=flip[sc], equal_class=flip[ec])
        if via == "swap_of_warm_parent":
            for m in METRICS:
                getattr(parent, "threshold_at_" + m)(case["rs"][:3])
            parent.eer()
            parent.auc()
            np.random.seed(case["_seed"])
            parent.bootstrap_sample()
        s = parent.swap()
    elif via in ("replaced", "relabelled", "from_labels", "swap2"):
        # other histories (vmon/derive.py): the object held other scores - other class sizes - and answered queries before its score arrays were
        # replaced through the public attributes; its label fields were re-assigned; it came from from_labels / a double swap
        with monitors.oracle_scope_ctx():
            s = derive.build(pos, neg, ep, en, sc, ec, via, case["_seed"])
    else:
        s = Scores(pos, neg, nb_easy_pos=ep, nb_easy_neg=en, score_class=sc, equal_class=ec)
        if via == "queried_before":  # queries in a different order first
            s.eer()
            for m in reversed(METRICS):
                getattr(s, "threshold_at_" + m)(case["rs"][-2:])
    hi_ext = hi_ + d + np.arange(max(ep, en, 1)) * 0.37
    lo_ext = lo_ - d - np.arange(max(ep, en, 1)) * 0.41
    pe, ne = (hi_ext[:ep], lo_ext[:en]) if sc == "pos" else (lo_ext[:ep], hi_ext[:en])
    mt = Scores(np.concatenate([pos, pe]), np.concatenate([neg, ne]), score_class=sc, equal_class=ec)
    sig = (sc, ec, case["kind"], ep > 0, en > 0, via)
    w = lambda **kw: (lambda: dict({"pos": pos, "neg": neg, "easy": [ep, en], "cfg": [sc, ec], "materialised_pos": pe, "materialised_neg": ne, "via": via}, **kw))  # noqa: E731
    sess.observe("R-easy")
    C = lambda ok, what, key, **kw: sess.check("R-easy", bool(ok), what, w(**kw), sig=sig, key=key)  # noqa: E731
    inner_lo, inner_hi = lo_ - d * 0.99, hi_ + d * 0.99
    ths = np.concatenate([rng.uniform(inner_lo, inner_hi, 6), rng.choice(allv, 4), np.nextafter(rng.choice(allv, 2), np.inf), np.nextafter(rng.choice(allv, 2), -np.inf),
                          [inner_lo, inner_hi, lo_, hi_]])
    C(np.array_equal(s.cm(ths).matrix, mt.cm(ths).matrix), "confusion matrices differ between declared and materialised easy samples", "easy-cm", thresholds=ths)
    # "at every threshold", however the threshold is handed over: a Python float, a numpy scalar, a 0-d array, a one-element list, a 2-d grid
    for j, form in enumerate(("pyfloat", "npfloat", "0d", "list1", "grid")):
        t_ = float(ths[(case.get("_seed", 0) + j) % len(ths)])
        x_ = {"pyfloat": t_, "npfloat": np.float64(t_), "0d": np.asarray(t_), "list1": [t_], "grid": ths[:6].reshape(2, 3)}[form]
        C(np.array_equal(s.cm(x_).matrix, mt.cm(x_).matrix) and np.array_equal(np.asarray(s.tpr(x_)), np.asarray(mt.tpr(x_)), equal_nan=True) and np.array_equal(np.asarray(s.tnr(x_)), np.asarray(mt.tnr(x_)), equal_nan=True),
          "confusion matrix / rates differ between declared and materialised easy samples for a threshold given in another form", "easy-cm-form", form=form, threshold=t_)
    for m in METRICS:
        C(np.array_equal(getattr(s, m)(ths), getattr(mt, m)(ths), equal_nan=True), "a rate differs between declared and materialised easy samples", "easy-rate", metric=m)
    C(abs(s.auc() - mt.auc()) <= 1e-9, "full AUC differs", "easy-auc", auc_easy=s.auc(), auc_materialised=mt.auc())
    l, u = float(case["lu"][0]), float(case["lu"][1])
    C(abs(s.auc(l, u) - mt.auc(l, u)) <= 1e-9, "partial AUC differs", "easy-pauc", lower=l, upper=u, easy=s.auc(l, u), materialised=mt.auc(l, u))
    rs = case["rs"]
    rs0 = rs.copy()
    for j_, m in enumerate(METRICS):
        rel = {"tpr": pos, "fnr": pos, "tnr": neg, "fpr": neg}.get(m, allv)
        # one and the same target array goes to both objects (in alternating order): what one call does to it would show in the other
        if j_ % 2:
            tm = np.asarray(getattr(mt, "threshold_at_" + m)(rs))
            te = np.asarray(getattr(s, "threshold_at_" + m)(rs))
        else:
            te = np.asarray(getattr(s, "threshold_at_" + m)(rs))
            tm = np.asarray(getattr(mt, "threshold_at_" + m)(rs))
        C(np.array_equal(rs, rs0), "threshold setting changed the caller's target array", "easy-thr-args", metric=m, targets_before=rs0, targets_after=rs.copy())
        inside = (tm >= rel.min()) & (tm <= rel.max())
        if inside.any():
            C(monitors.close_thr(tm[inside], te[inside], span), "thresholds differ for a target whose materialised threshold lies within the scored range", "easy-thr",
              metric=m, targets=rs[inside], materialised=tm[inside], easy=te[inside])
    sess.sig_counts[("case",) + sig] += 1
    return bool(ep + en > 0)
