"""C08 — results are symmetric under class swap, direction reversal and rescaling."""

from __future__ import annotations

import numpy as np

from .. import gen, monitors

PID = "C08"
ANCHORS = ["scores.py:Scores.swap", "scores.py:Scores.cm", "scores.py:Scores._threshold_at_ratio", "scores.py:Scores.eer", "scores.py:Scores.auc",
           "group_scores.py:GroupScores.swap"]
RAISES_ARE_VIOLATIONS = True
DECIDING = {"R-sym": 25819}
RULE = (
    "Per source object the driver builds swap(), the negated object with flipped score_class, and an affine image a*s+b; all queries go through "
    "the monitored public methods; the offline checker R-sym compares the recorded results pairwise. swap: FPR/TPR/TOPR/FNR/TNR/TONR arrays of "
    "the original == FNR/TNR/TONR/FPR/TPR/TOPR of the swapped object at every threshold (exact), also for GroupScores.swap() incl. per-group "
    "rates; negation: cm(t) == cm'(-t) (exact), thresholds of all six threshold_at_* (linear) negate (8 ulp + 1e-9*span), EER (tie-free, "
    "well-separated) and full/partial AUC invariant; affine: thresholds map by a*t+b, AUC and EER invariant, and for exactly representable maps "
    "(a=2^k, integer b on lattice scores) all rates at mapped thresholds are identical. W1: 12 score classes incl. ties, empty classes where "
    "defined, easy counts, 4 cfg, thresholds at/around scores and +-inf, targets in and out of range. Non-trivial: both classes non-empty; "
    "distinct = hash of inputs."
    ' Build-phase additions: explicit unsorted group names under GroupScores.swap(), threshold_at_metric on an integer grid under negation (where no interior grid point is within 64 eps of a score).'
)
ASSUMPTIONS = ["finite scores, a > 0, |b| moderate", "threshold equivariance under negation for method='linear' only; EER equivariance for tie-free scores separated by > 1e-6*span"]
METRICS = ["tpr", "fnr", "tnr", "fpr", "topr", "tonr"]
MIRROR = {"fpr": "fnr", "fnr": "fpr", "tpr": "tnr", "tnr": "tpr", "topr": "tonr", "tonr": "topr"}
FLIP = {"pos": "neg", "neg": "pos"}


def install(ctx):
    monitors.install_ctor_snapshot(ctx.sess)


def cases(ctx):
    rng = ctx.rng
    for i in range(ctx.n(2400, 6000)):
        pos, neg, kind = gen.scores(rng, min_pos=0, min_neg=0, maxn=20)
        ep, en = gen.easy(rng)
        sc, ec = gen.cfg(rng)
        exact = kind in ("lattice", "intdtype", "perm", "scaled") and rng.random() < 0.7
        a = float(2.0 ** int(rng.integers(-3, 5))) if exact else float(rng.choice([0.5, 2.0, 1.0, float(rng.uniform(0.1, 10))]))
        b = float(rng.integers(-8, 9)) if exact else float(rng.choice([0.0, 1.0, float(rng.normal(0, 5))]))
        yield {"pos": pos, "neg": neg, "ep": ep, "en": en, "sc": sc, "ec": ec, "kind": kind, "a": a, "b": b, "exact": bool(exact),
               "rs": np.concatenate([rng.uniform(-0.1, 1.1, 5), [0.0, 1.0], rng.uniform(0, 1, 3)]), "lu": np.sort(rng.uniform(0, 1, 2)),
               "groups_u": rng.integers(0, 3, 64), "_seed": int(rng.integers(1 << 31))}


def execute(ctx, case):
    from score_analysis import GroupScores, Scores

    sess = ctx.sess
    pos, neg = np.asarray(case["pos"]), np.asarray(case["neg"])
    posf, negf = pos.astype(float), neg.astype(float)
    ep, en, sc, ec, a, b = case["ep"], case["en"], case["sc"], case["ec"], case["a"], case["b"]
    rs = case["rs"]
    lo, up = float(case["lu"][0]), float(case["lu"][1])
    rng = np.random.default_rng(case["_seed"])
    allv = np.concatenate([posf, negf])
    ths = gen.thresholds(rng, allv)
    if case["_seed"] % 6 == 0:  # a long threshold vector in arbitrary order with repeats (per-sample thresholds, pooled grids)
        ths = rng.choice(ths, int(rng.choice([1000, 2500, 4100, 6000])))
    span = max(1.0, float(np.ptp(allv)) if allv.size else 1.0, float(np.abs(allv).max()) if allv.size else 1.0)
    s = Scores(pos, neg, nb_easy_pos=ep, nb_easy_neg=en, score_class=sc, equal_class=ec)
    sig = (sc, ec, case["kind"], ep > 0, en > 0, "exact" if case["exact"] else "-")
    w = lambda **kw: (lambda: dict({"pos": pos, "neg": neg, "easy": [ep, en], "cfg": [sc, ec], "a": a, "b": b}, **kw))  # noqa: E731
    sess.observe("R-sym")
    C = lambda ok, what, key, **kw: sess.check("R-sym", bool(ok), what, w(**kw), sig=sig, key=key)  # noqa: E731
    both = len(pos) > 0 and len(neg) > 0
    # ---- swap ------------------------------------------------------------------------------------
    if case["_seed"] % 2 and both:  # the parent has a query history before it is swapped
        try:
            s.eer()
        except ValueError:
            pass  # the root search gives up when threshold differences overflow (scores near the float range limits); a warm-up, not a check
        for m in METRICS:
            getattr(s, "threshold_at_" + m)(rs[:3])
    if case["_seed"] % 5 == 0:  # the same configuration, re-assigned as the plain strings the constructor accepts
        s.score_class, s.equal_class = str(sc), str(ec)
    sw = s.swap()
    C((*monitors.cfg_of(sw), sw.nb_easy_pos, sw.nb_easy_neg) == (FLIP[sc], FLIP[ec], en, ep) and np.array_equal(sw.pos, s.neg) and np.array_equal(sw.neg, s.pos),
      "swap() does not exchange classes, easy counts and both flags", "sym-swap-object")
    for m in METRICS:
        C(np.array_equal(getattr(s, m)(ths), getattr(sw, MIRROR[m])(ths), equal_nan=True), "swap(): a rate of the original differs from its mirror rate on the swapped object", "sym-swap-rate", metric=m, thresholds=ths)
    C(np.array_equal(s.cm(ths).matrix, sw.cm(ths).matrix[..., ::-1, ::-1]), "swap(): confusion matrix is not the mirrored matrix", "sym-swap-cm")
    # ---- negation ----------------------------------------------------------------------------------
    # Related objects are compared like with like: all three in float64 (a float32 source would otherwise be compared with
    # float64 images of itself and differ by float32 rounding, which is not what the property is about).
    narrow = any(np.asarray(a_).dtype.kind == "f" and np.asarray(a_).dtype.itemsize < 8 for a_ in (pos, neg))
    if narrow:  # integer and float64 classes are kept as they are: int -> float64 is exact, and the mix of dtypes is itself an input class
        s = Scores(posf, negf, nb_easy_pos=ep, nb_easy_neg=en, score_class=sc, equal_class=ec)
    ng = Scores(-posf, -negf, nb_easy_pos=ep, nb_easy_neg=en, score_class=FLIP[sc], equal_class=ec)
    C(np.array_equal(s.cm(ths).matrix, ng.cm(-ths).matrix), "negated scores + flipped score_class change the confusion matrix at the negated threshold", "sym-neg-cm", thresholds=ths)
    af = Scores(a * posf + b, a * negf + b, nb_easy_pos=ep, nb_easy_neg=en, score_class=sc, equal_class=ec)
    aspan = span * max(a, 1.0) + abs(b)
    # a*s+b is "an increasing affine map of the scores" only if it is increasing on the data *as floats*: an inexact map can
    # merge neighbouring floats (new ties) - then nothing is claimed for it.
    mapped = np.concatenate([af.pos, af.neg]) if allv.size else allv
    iso = (not allv.size) or (np.array_equal(np.argsort(allv, kind="stable"), np.argsort(np.concatenate([a * posf + b, a * negf + b]), kind="stable"))
                             and len(np.unique(allv)) == len(np.unique(mapped)) and bool(np.all(np.isfinite(mapped))))  # an overflowing image is not a finite score set
    if case["exact"]:
        # thresholds on the dyadic grid are mapped exactly too (ulp-neighbours of a score are not: the ulp changes with magnitude)
        grid = np.isinf(ths) | (ths * 1024 == np.round(ths * 1024))
        tg = ths[grid]
        C(np.array_equal(s.cm(tg).matrix, af.cm(a * tg + b).matrix), "exact affine map changes the confusion matrix at the mapped threshold", "sym-aff-cm", thresholds=tg)
    for m in METRICS:
        rel = monitors.relevant_scores(s, m)
        if len(rel) == 0:
            continue
        t = np.asarray(getattr(s, "threshold_at_" + m)(rs))
        tn_ = np.asarray(getattr(ng, "threshold_at_" + m)(rs))
        # negation is exact, so the rates realised at the two thresholds are equal bit for bit (a sentinel on the wrong side of a
        # score is two ulp away in threshold terms, but the opposite extreme in rate terms)
        ext = (np.asarray(rs) <= 0.0) | (np.asarray(rs) >= 1.0)  # extreme targets: honoured exactly (C03), interior ones may round onto a score
        C(np.array_equal(np.asarray(getattr(s, m)(t))[ext], np.asarray(getattr(ng, m)(tn_))[ext], equal_nan=True),
          "rates realised at the thresholds of extreme targets differ between the object and its negation", "sym-neg-thr-rate", metric=m, targets=rs, t=t, t_negated_object=tn_)
        C(monitors.close_thr(tn_, -t, max(float(np.ptp(allv)), 1e-300)), "thresholds do not negate under negation + flipped score_class", "sym-neg-thr", metric=m, targets=rs, t=t, t_negated_object=tn_)
        if not iso:
            continue
        ta = np.asarray(getattr(af, "threshold_at_" + m)(rs))
        C(monitors.close_thr(ta, a * t + b, aspan), "thresholds do not map affinely under a*s+b", "sym-aff-thr", metric=m, targets=rs, t=t, t_affine_object=ta)
        if case["exact"]:
            C(np.array_equal(getattr(s, m)(t), getattr(af, m)(ta), equal_nan=True), "rates at the returned thresholds change under an exact affine map", "sym-aff-rate", metric=m)
    if both and len(np.unique(allv)) >= 2 and bool(np.all(np.isfinite(allv))) and float(np.abs(allv).max()) < 1e150:
        # the general threshold search on an integer number of grid points: the grid spans the scores end to end (its end points are scores, where
        # the metric jumps), so the solutions of the negated object are the negated solutions. Claimed where no interior grid point sits within a
        # few ulp of a score (the two mirror grids round differently there) and the target is crossed, not touched
        p_ = [4, 7, 10, 11, 20, 50][case.get("_seed", 0) % 6]
        grid_ = np.linspace(float(allv.min()), float(allv.max()), p_)
        inner_ = grid_[1:-1]
        near_ = inner_.size and bool(np.any(np.abs(inner_[:, None] - allv[None, :]) <= 64 * np.finfo(float).eps * float(np.abs(allv).max())))  # absolute: grid rounding is an ulp of the end points' magnitude, also next to zero
        if not near_:
            for m in ("fpr", "tpr", "topr"):
                with monitors.oracle_scope_ctx():
                    y_ = np.asarray(getattr(s, m)(grid_), dtype=float)
                tg_ = np.array([t_ for t_ in np.asarray(rs, dtype=float).tolist() if y_.min() < t_ < y_.max() and not np.any(y_ == t_)])
                if not tg_.size:
                    continue
                r1 = s.threshold_at_metric(tg_, m, points=p_)
                r2 = ng.threshold_at_metric(tg_, m, points=p_)
                ok_ = len(r1) == len(r2) and all(len(a1) == len(a2) and monitors.close_thr(np.sort(-np.asarray(a2, dtype=float)), np.asarray(a1, dtype=float), max(float(np.ptp(allv)), 1e-300)) for a1, a2 in zip(r1, r2))
                C(ok_, "threshold_at_metric on an integer number of points: the solutions do not negate under negation + flipped score_class", "sym-neg-tam", metric=m, points=p_, targets=tg_,
                  solutions=[np.asarray(a1) for a1 in r1], solutions_negated_object=[np.asarray(a2) for a2 in r2])
    if both:
        a0 = s.auc()
        C(abs(a0 - ng.auc()) <= 1e-12, "full AUC changes under negation", "sym-auc-neg", auc=a0, auc_neg=ng.auc())
        if iso:
            C(abs(a0 - af.auc()) <= 1e-12, "full AUC changes under an affine map", "sym-auc-aff", auc=a0, auc_aff=af.auc())
        xties = bool(set(posf.tolist()) & set(negf.tolist()))
        if not xties:
            C(abs(s.auc(lo, up) - ng.auc(lo, up)) <= 1e-9, "partial AUC changes under negation", "sym-pauc-neg", lower=lo, upper=up)
            if iso:
                C(abs(s.auc(lo, up) - af.auc(lo, up)) <= 1e-9, "partial AUC changes under an affine map", "sym-pauc-aff", lower=lo, upper=up)
        srt = np.sort(allv)
        well = len(srt) < 2 or float(np.diff(srt).min()) > 1e-6 * max(1.0, float(np.abs(srt).max()))
        if monitors.tie_free(s) and well and monitors.tie_free(af) and iso:
            tspan = span * (1.0 + 0.4 * s.nb_all_neg)
            t, e = s.eer()
            t2, e2 = ng.eer()
            t3, e3 = af.eer()
            C(monitors.close_thr(t2, -t, tspan) and abs(e - e2) <= 1e-8, "EER not equivariant under negation", "sym-neg-eer", t=t, e=e, t2=t2, e2=e2)
            C(monitors.close_thr(t3, a * t + b, tspan * max(a, 1.0) + abs(b)) and abs(e - e3) <= 1e-8, "EER not equivariant under an affine map", "sym-aff-eer", t=t, e=e, t3=t3, e3=e3)
    # ---- GroupScores.swap ------------------------------------------------------------------------------
    if ep == 0 and en == 0 and len(pos) + len(neg) > 0:
        names = np.array(["g0", "g1", "g2"])
        pg = names[case["groups_u"][: len(pos)] % 3] if len(pos) else np.array([], dtype=str)
        ngp = names[case["groups_u"][len(pos): len(pos) + len(neg)] % 3] if len(neg) else np.array([], dtype=str)
        if len(pg) == len(pos) and len(ngp) == len(neg):
            gkw = {}
            if case.get("_seed", 0) % 3 == 0:  # an explicit (unsorted) list of group names fixes the order of the per-group rows - also on the swapped object
                present = sorted(set(pg.tolist()) | set(ngp.tolist()))
                gkw = {"group_names": np.array(present[::-1] if len(present) > 1 else present)}
            gs = GroupScores(pos, neg, pos_groups=pg, neg_groups=ngp, score_class=sc, equal_class=ec, **gkw)
            gsw = gs.swap()
            C([str(g) for g in gsw.groups] == [str(g) for g in gs.groups], "GroupScores.swap(): the list / order of groups changed", "sym-gswap-groups", groups=[str(g) for g in gs.groups], swapped=[str(g) for g in gsw.groups])
            for m in ("fpr", "tpr", "topr"):
                C(np.array_equal(getattr(gs, "group_" + m)(ths), getattr(gsw, "group_" + MIRROR[m])(ths), equal_nan=True)
                  and np.array_equal(getattr(gs, m)(ths), getattr(gsw, MIRROR[m])(ths), equal_nan=True), "GroupScores.swap(): per-group rate differs from its mirror", "sym-gswap", metric=m)
    sess.sig_counts[("case",) + sig] += 1
    return bool(both)
