"""C12 — group labels stay attached to their scores; groups partition the data."""

from __future__ import annotations

import numpy as np

from .. import derive, gen, monitors

PID = "C12"
ANCHORS = ["group_scores.py:GroupScores.__init__", "group_scores.py:GroupScores.swap", "group_scores.py:GroupScores.__getitem__",
           "group_scores.py:GroupScores.group_cm", "group_scores.py:GroupScores.bootstrap_sample", "group_scores.py:GroupScores._sampling_method",
           "group_scores.py:groupwise.<locals>.groupwise_metric"]
RAISES_ARE_VIOLATIONS = True
DECIDING = {"M-bs": 43850, "M-gs": 19549, "R-gs": 5660}
THOROUGH_EXTRA = ["W2", "W3"]
RULE = (
    "Most sources use unique score values, so owner[value] = (class, group) makes every history unambiguous; every ninth source has tied / "
    "quantised scores (also kept as uint8/int8/uint16/int16 arrays), judged by multisets and counts: rows carrying a label, partition of the "
    "matrix, and for samples the existence of every (value, class, group) triple in the source and the per-group counts. M-gs judges every GroupScores "
    "construction (multiset of (score,label) pairs preserved, arrays ascending, groups = sorted distinct labels) and every gs[g] (exactly the "
    "scores carrying the label); M-bs judges every bootstrap_sample (each sampled (score,label) is an owner pair of the right class, arrays "
    "ascending, group list/order preserved, by_group+replacement: each group's count exact, plus the C11 per-sample clauses). Relations R-gs "
    "per case: swap() flips class and keeps labels; group_cm[i] == Scores(filtered).cm == counting; sum over groups == cm at every threshold; "
    "groupwise(m) == stack of per-group results == group_<m> (also user callables consuming the RNG or changing value type); swap() keeps the "
    "list and order of groups; == true for a reconstruction, false when one field differs; single thresholds in every form; from_labels == constructor. W1: 1-5 groups (some lacking a class), names incl. "
    "'_', numeric-looking and unicode, 1-25 and 120-200 scores per class, 4 cfg, replacement/single_pass/dynamic x None/by_label/by_group "
    "(single_pass+by_group only when every stratum is non-empty). Non-trivial: >=2 groups and both classes present; distinct = hash of inputs."
)
ASSUMPTIONS = ["finite score values; element-wise tracing of labels only for sources with unique values", "group labels compared as strings",
               "NumPy global RandomState seeded per case"]
NAMES = ["a", "b", "c", "dd", "e_f", "Z", "10", "9", "ß", "x y"]
FLIP = {"pos": "neg", "neg": "pos"}


def install(ctx):
    monitors.install_gs(ctx.sess)
    monitors.install_bs(ctx.sess, facets=("c11", "c12"))


def cases(ctx):
    rng = ctx.rng
    for i in range(ctx.n(420, 1200)):
        G = int(rng.integers(1, 6))
        names = [str(x) for x in rng.choice(NAMES, G, replace=False)]
        big = rng.random() < 0.15
        npos = int(rng.integers(120, 200)) if big else int(rng.integers(1, 26))
        nneg = int(rng.integers(120, 200)) if big else int(rng.integers(1, 26))
        allv = rng.permutation(npos + nneg) * 0.5 - 3.0
        pg = rng.choice(names, npos)
        ng = rng.choice(names[: max(1, G - int(rng.integers(0, 2)))], nneg)  # sometimes a group lacks negatives
        sc, ec = gen.cfg(rng)
        gn = None
        if rng.random() < 0.3:  # explicitly given group names: used as is, not sorted (may also list a group without data)
            present = sorted(set(str(g) for g in pg) | set(str(g) for g in ng))
            extra = [n for n in names if n not in present][: int(rng.integers(0, 2))]
            gn = [str(x) for x in rng.permutation(present + extra)]
        tied = bool(i % 9 == 4)
        if tied:  # quantised scores (ratings, rounded scores): the same value occurs in several groups of one class and in both classes
            allv = rng.integers(0, int(rng.choice([3, 6, 12])), npos + nneg) * 0.5 - 1.0
            if rng.random() < 0.5:
                # 8/16-bit quantised scores as they come out of a model (unsigned or narrow signed integers, in arbitrary order)
                dt_ = [np.uint8, np.int8, np.uint16, np.int16][int(rng.integers(0, 4))]
                ii_ = np.iinfo(dt_)
                allv = rng.integers(ii_.min, ii_.max + 1, npos + nneg).astype(dt_) if rng.random() < 0.6 else rng.integers(0, 12, npos + nneg).astype(dt_)
        yield {"pos": allv[:npos], "neg": allv[npos:], "pg": [str(g) for g in pg], "ng": [str(g) for g in ng], "sc": sc, "ec": ec, "group_names": gn,
               "big": big, "thr_u": rng.uniform(0, 1, 4), "_seed": int(rng.integers(1 << 31)), "tied": tied}


def scenarios(ctx):
    rng = ctx.rng
    for i in range(ctx.n(4, 8)):
        n = int(rng.integers(40, 160))
        yield {"traffic": True, "n": n, "_seed": int(rng.integers(1 << 31)), "sc": "pos", "ec": "pos", "pos": np.zeros(0), "neg": np.zeros(0), "pg": [], "ng": [],
               "big": False, "thr_u": rng.uniform(0, 1, 4)}


def _traffic(case):
    import pandas as pd
    from score_analysis import BootstrapConfig, showbias

    rs = np.random.default_rng(case["_seed"])
    np.random.seed(case["_seed"])
    n = case["n"]
    df = pd.DataFrame({"g": rs.choice(["A", "B", "C_1"], n), "h": rs.choice(["u", "v"], n), "score": rs.permutation(n) / n, "label": rs.integers(0, 2, n)})
    for gc in ("g", ["g", "h"]):
        for strat in (None, "by_group", "by_label"):
            showbias(df, gc, "label", "score", "fnr", bootstrap_ci=True, threshold=[0.3, 0.6],
                     bootstrap_config=BootstrapConfig(nb_samples=12, bootstrap_method="quantile", stratified_sampling=strat))


def _execute_tied(ctx, case, gs, pos, neg, pg, ng, sc, ec, rs):
    """Sources with tied values: elements cannot be traced individually, so what is judged are multisets and counts - the rows carrying a
    label (as a multiset), the partition of the confusion matrix, and for samples (M-bs, tie branch) the existence of every sampled
    (value, class, group) triple in the source and the per-group sample counts under by_group stratification."""
    from score_analysis import BootstrapConfig
    from .. import refmodel as R

    sess = ctx.sess
    gs._vmon_owner = False
    sig = (sc, ec, len(set(pg) | set(ng)), "tied")
    C = lambda ok, what, key, **kw: sess.check("R-gs", bool(ok), what, dict({"pos": pos, "pos_groups": pg, "neg": neg, "neg_groups": ng, "cfg": [sc, ec]}, **kw), sig=sig, key=key)  # noqa: E731
    sess.observe("R-gs")
    allv = np.concatenate([pos, neg])
    ths = np.concatenate([np.unique(allv), np.unique(allv) + 0.25, [-np.inf, np.inf]])
    for g in gs.groups:
        sub = gs[g]
        C(np.array_equal(sub.pos, np.sort(pos[pg == g])) and np.array_equal(sub.neg, np.sort(neg[ng == g])), "gs[g] is not the (multiset of) scores carrying the label", "gs-getitem-rows", group=str(g))
    gcm = gs.group_cm(ths).matrix
    for i, g in enumerate(gs.groups):
        ref = np.array([R.count_cm(pos[pg == g].tolist(), neg[ng == g].tolist(), t, sc, ec) for t in ths.tolist()])
        C(np.array_equal(gcm[i], ref), "group_cm differs from counting on the rows carrying the label (tied scores)", "gs-group-cm", group=str(g))
    C(np.array_equal(gcm.sum(axis=0), gs.cm(ths).matrix), "per-group matrices do not sum to the overall matrix (tied scores)", "gs-partition")
    strata_ok = all((pg == g).sum() > 0 and (ng == g).sum() > 0 for g in gs.groups)
    for meth in ("replacement", "dynamic", "single_pass"):
        for strat in (None, "by_label", "by_group"):
            if strat == "by_group" and not strata_ok and meth != "replacement":
                continue
            for _ in range(3):
                gs.bootstrap_sample(BootstrapConfig(sampling_method=meth, stratified_sampling=strat))  # judged by M-bs (tie branch)
    sess.sig_counts[("case",) + sig] += 1
    return bool(len(gs.groups) >= 2)


def execute(ctx, case):
    from score_analysis import BootstrapConfig, GroupScores, Scores, groupwise

    sess = ctx.sess
    if case.get("traffic"):
        _traffic(case)
        return True
    pos, neg, sc, ec = case["pos"], case["neg"], case["sc"], case["ec"]
    pg, ng = np.asarray(case["pg"]), np.asarray(case["ng"])
    rs = np.random.default_rng(case["_seed"])
    np.random.seed(case["_seed"])
    gn = case.get("group_names")
    if gn is None:
        gs = GroupScores(pos, neg, pos_groups=pg, neg_groups=ng, score_class=sc, equal_class=ec)  # judged by M-gs
    else:
        gs = GroupScores(pos, neg, pos_groups=pg, neg_groups=ng, score_class=sc, equal_class=ec, group_names=np.asarray(gn))
        sess.check("R-gs", [str(g) for g in gs.groups] == gn, "explicit group_names are not used as given", {"given": gn, "got": [str(g) for g in gs.groups]}, key="gs-group-names")
    if case.get("tied"):
        return _execute_tied(ctx, case, gs, pos, neg, pg, ng, sc, ec, rs)
    owner = {float(v): ("p", str(g)) for v, g in zip(pos, pg)}
    owner.update({float(v): ("n", str(g)) for v, g in zip(neg, ng)})
    gs._vmon_owner = owner  # ground truth from the *inputs*, used by M-bs for every sample of gs
    sig = (sc, ec, len(set(pg) | set(ng)), "big" if case["big"] else "small", "names" if case.get("group_names") else "-")
    w = lambda **kw: (lambda: dict({"pos": pos, "pos_groups": list(pg), "neg": neg, "neg_groups": list(ng), "cfg": [sc, ec]}, **kw))  # noqa: E731
    sess.observe("R-gs")
    C = lambda ok, what, key, **kw: sess.check("R-gs", bool(ok), what, w(**kw), sig=sig, key=key)  # noqa: E731

    def attached(obj, swapped):
        okp = all(owner.get(float(v)) == ("n" if swapped else "p", str(g)) for v, g in zip(obj.pos, obj.pos_groups))
        okn = all(owner.get(float(v)) == ("p" if swapped else "n", str(g)) for v, g in zip(obj.neg, obj.neg_groups))
        asc = bool(np.all(np.diff(obj.pos) >= 0)) and bool(np.all(np.diff(obj.neg) >= 0))
        return okp and okn and asc and len(obj.pos) == len(obj.pos_groups) and len(obj.neg) == len(obj.neg_groups)

    C(attached(gs, False) and len(gs.pos) == len(pos) and len(gs.neg) == len(neg), "constructor: labels detached or scores lost", "gs-ctor")
    allv = np.concatenate([pos, neg])
    ths = np.concatenate([allv.min() - 1 + (np.ptp(allv) + 2) * case["thr_u"], rs.choice(allv, 3), [-np.inf, np.inf]])
    from .. import refmodel as R

    def op_swap():
        sw = gs.swap()
        C(attached(sw, True) and monitors.cfg_of(sw) == (FLIP[sc], FLIP[ec]) and sorted(sw.groups) == sorted(str(g) for g in gs.groups)
          and len(sw.pos) == len(neg) and len(sw.neg) == len(pos), "swap(): labels detached, flags not flipped or groups changed", "gs-swap")
        C([str(g) for g in sw.groups] == [str(g) for g in gs.groups] and np.array_equal(sw.group_cm(ths).matrix[..., ::-1, ::-1], gs.group_cm(ths).matrix),
          "swap(): the groups (rows of every per-group result) come in another order than on the original", "gs-swap-order", groups=[str(g) for g in gs.groups], swapped=[str(g) for g in sw.groups])

    def op_from_labels():
        fl = GroupScores.from_labels(np.concatenate([np.ones(len(pos), int), np.zeros(len(neg), int)]), np.concatenate([pos, neg]), np.concatenate([pg, ng]),
                                     **derive.call_form(case.get("_seed", 0), dict(score_class=sc, equal_class=ec, pos_label=1)))  # documented defaults may be left out
        C(fl == gs and list(fl.groups) == sorted(set(pg) | set(ng)), "from_labels differs from the constructor", "gs-from-labels")

    def op_eq():
        # == is what callers (and several relations here) use to compare objects: equal to a reconstruction from the same rows, unequal as soon
        # as one group label, one score or one configuration field differs
        same = GroupScores(pos.copy(), neg.copy(), pos_groups=pg.copy(), neg_groups=ng.copy(), score_class=sc, equal_class=ec)
        C(bool(gs == same) and bool(same == gs), "an object does not compare equal to a reconstruction from the same rows", "gs-eq-same")
        variants = {}
        for nm_, arr_ in (("pos_groups", pg), ("neg_groups", ng)):
            if len(arr_):
                a2 = arr_.copy()
                j_ = int(rs.integers(0, len(a2)))
                other_labels = [g_ for g_ in (set(pg) | set(ng) | {"zz-other"}) if g_ != a2[j_]]
                a2[j_] = sorted(other_labels)[0]
                variants[nm_] = GroupScores(pos, neg, pos_groups=a2 if nm_ == "pos_groups" else pg, neg_groups=a2 if nm_ == "neg_groups" else ng, score_class=sc, equal_class=ec)
        variants["equal_class"] = GroupScores(pos, neg, pos_groups=pg, neg_groups=ng, score_class=sc, equal_class="neg" if ec == "pos" else "pos")
        variants["score_class"] = GroupScores(pos, neg, pos_groups=pg, neg_groups=ng, score_class="neg" if sc == "pos" else "pos", equal_class=ec)
        for nm_, o_ in variants.items():
            C(not bool(gs == o_) and not bool(o_ == gs), "objects differing in one field compare equal", "gs-eq-differs", differs_in=nm_)

    def op_group_cm(tag="", ths=ths, sample=None):
        gcm = gs.group_cm(ths).matrix
        idx = np.arange(len(ths)) if sample is None else sample  # long vectors: recount at a sample of positions
        tot = np.zeros((len(idx), 2, 2), dtype=int)
        for i, g in enumerate(gs.groups):
            fp, fn = pos[pg == g], neg[ng == g]
            ref = np.array([R.count_cm(fp.tolist(), fn.tolist(), t, sc, ec) for t in ths[idx].tolist()])
            C(np.array_equal(gcm[i][idx], ref), "group_cm differs from counting on the rows carrying the label" + tag, "gs-group-cm", group=str(g), thresholds=ths[idx])
            if sample is None:
                C(np.array_equal(Scores(fp, fn, score_class=sc, equal_class=ec).cm(ths).matrix, ref), "Scores(filtered).cm differs from counting", "gs-filtered-cm")
            tot += ref
        C(np.array_equal(tot, gs.cm(ths).matrix[idx]) and np.array_equal(gcm.sum(axis=0), gs.cm(ths).matrix), "per-group matrices do not sum to the overall matrix" + tag, "gs-partition")

    def op_group_cm_near():
        # successive queries whose threshold arrays differ by an ulp around a score (and print identically), and long vectors
        # that differ only in the interior: every call is judged on its own thresholds
        for s_ in rs.choice(allv, 2).tolist():
            for t_ in (np.nextafter(s_, -np.inf), s_, np.nextafter(s_, np.inf)):
                op_group_cm(" (thresholds an ulp apart in successive calls)", ths=np.array([t_, allv.min() - 1.0]))
        base = np.sort(rs.choice(allv, 1200))
        for _ in range(2):
            v = base.copy()
            v[3:-3] = np.sort(rs.uniform(allv.min(), allv.max(), len(v) - 6))
            op_group_cm(" (long vectors differing in the interior)", ths=v, sample=rs.integers(0, len(v), 12))

    def op_group_cm_forms():
        # one threshold, however it is handed over (Python float, numpy scalar, 0-d array, one-element list): the per-group matrices are those of
        # the vector call at that position, and the group rates follow
        j_ = int(rs.integers(0, len(ths)))
        t_ = float(ths[j_])
        ref_ = gs.group_cm(ths).matrix[:, j_]
        for form, x_ in (("pyfloat", t_), ("npfloat", np.float64(t_)), ("0d", np.asarray(t_)), ("list1", [t_])):
            got_ = np.asarray(gs.group_cm(x_).matrix)
            want_ = ref_[:, None] if form == "list1" else ref_
            C(got_.shape == want_.shape and np.array_equal(got_, want_), "group_cm at a single threshold differs from the vector call at that position", "gs-group-cm-form", form=form, threshold=t_)
            C(np.array_equal(np.asarray(gs.group_tpr(x_)), np.asarray(gs.group_cm(x_).tpr()), equal_nan=True) and np.array_equal(np.asarray(gs.group_topr(x_)), np.asarray(gs.group_cm(x_).topr()), equal_nan=True),
              "group rate at a single threshold differs from the rate of group_cm there", "gs-group-rate-form", form=form, threshold=t_)

    def op_group_cm_layout():
        # the same grid of thresholds in several memory layouts (C, Fortran, transposed / strided views): positions are what counts
        g2 = rs.choice(np.concatenate([allv, allv + 0.25]), (3, 4))
        big = np.zeros((6, 8))
        big[::2, ::2] = g2
        for lay, arr in (("C", g2), ("F", np.asfortranarray(g2)), ("T-view", np.ascontiguousarray(g2.T).T), ("strided", big[::2, ::2])):
            gcm = gs.group_cm(arr).matrix
            ok_shape = gcm.shape == (len(gs.groups), 3, 4, 2, 2)
            C(ok_shape, "group_cm shape is not (G,)+threshold.shape+(2,2)", "gs-group-cm-shape", layout=lay, got=gcm.shape)
            if not ok_shape:
                continue
            for i, g in enumerate(gs.groups):
                fp, fn = pos[pg == g], neg[ng == g]
                ref = np.array([R.count_cm(fp.tolist(), fn.tolist(), t, sc, ec) for t in g2.reshape(-1).tolist()]).reshape(3, 4, 2, 2)
                C(np.array_equal(gcm[i], ref), "group_cm on a 2-d threshold grid differs from counting at the same positions", "gs-group-cm", group=str(g), layout=lay)
            C(np.array_equal(gcm.sum(axis=0), gs.cm(arr).matrix), "per-group matrices do not sum to the overall matrix (2-d grid)", "gs-partition", layout=lay)

    def op_groupwise():
        for m in ("fnr", "tpr", "topr"):
            gw = groupwise(m)(gs, threshold=ths)
            ref = np.stack([getattr(Scores(pos[pg == g], neg[ng == g], score_class=sc, equal_class=ec), m)(ths) for g in gs.groups], axis=0)
            C(np.array_equal(gw, ref, equal_nan=True) and np.array_equal(gw, getattr(gs, "group_" + m)(ths), equal_nan=True),
              "groupwise(metric) differs from the metric applied to each group's rows", "gs-groupwise", metric=m)

        # any metric, also a user callable: one that consumes random numbers (a bootstrap statistic) gives, from the same RNG state, exactly
        # the group-by-group results - the metric is applied once per group, in group order - and one whose value type depends on the
        # group (an int fallback for a group lacking a class) is stacked with the usual promotion
        def m_rng(s_, scale=1.0):
            return np.array([np.random.random() * scale, len(s_.pos), len(s_.neg)])

        def m_fallback(s_):
            return float(np.mean(s_.pos)) + 0.25 if len(s_.pos) else 0

        st0 = np.random.get_state()
        gw_r = groupwise(m_rng)(gs, scale=2.0)
        st_after = np.random.get_state()
        np.random.set_state(st0)
        ref_r = np.stack([m_rng(gs[g], scale=2.0) for g in gs.groups], axis=0)
        st_ref = np.random.get_state()
        C(np.array_equal(gw_r, ref_r) and np.array_equal(st_after[1], st_ref[1]) and st_after[2] == st_ref[2],
          "groupwise(metric) of a random-number-consuming metric differs from the group-by-group results from the same RNG state (or leaves the RNG elsewhere)", "gs-groupwise-rng",
          got=gw_r, want=ref_r)
        gw_f = groupwise(m_fallback)(gs)
        ref_f = np.stack([m_fallback(gs[g]) for g in gs.groups], axis=0)
        C(np.array_equal(np.asarray(gw_f, dtype=float), np.asarray(ref_f, dtype=float)), "groupwise(metric) differs from the stacked per-group values when the value type depends on the group", "gs-groupwise-types",
          got=gw_f, want=ref_f)

    def op_getitem():
        g = str(rs.choice(list(gs.groups)))
        sub = gs[g]  # also judged by M-gs
        C(np.array_equal(sub.pos, np.sort(pos[pg == g])) and np.array_equal(sub.neg, np.sort(neg[ng == g])), "gs[g] is not the sorted scores carrying the label", "gs-getitem-rows", group=g)

    strata_ok = all((pg == g).sum() > 0 and (ng == g).sum() > 0 for g in gs.groups)

    def op_sample(meth, strat):
        def run():
            for _ in range(2):
                b = gs.bootstrap_sample(BootstrapConfig(sampling_method=meth, stratified_sampling=strat))  # judged by M-bs (c11 + c12 facets)
                if strat == "by_label" and meth == "replacement":
                    C(len(b.pos) == len(pos) and len(b.neg) == len(neg), "by_label: class sizes not preserved", "gs-bs-label")
        return run

    ops = [op_swap, op_from_labels, op_group_cm, op_groupwise, op_getitem, op_getitem, op_eq, op_group_cm_forms] + ([op_group_cm_near] if case.get("_seed", 0) % 3 == 0 else []) + ([op_group_cm_layout] if case.get("_seed", 0) % 3 == 1 else [])
    for meth in ("replacement", "single_pass", "dynamic"):
        for strat in (None, "by_label", "by_group"):
            if strat == "by_group" and not strata_ok and meth != "replacement":
                continue  # quantifier: every sampled stratum non-empty (single pass divides by the stratum size)
            ops.append(op_sample(meth, strat))
    # "any sequence of calls on one object": the order of queries and sampling calls is part of the case
    order = rs.permutation(len(ops))
    for j in order:
        ops[int(j)]()
    op_group_cm(" (after the whole history)")
    op_groupwise()
    sess.sig_counts[("case",) + sig] += 1
    return bool(len(gs.groups) >= 2)
