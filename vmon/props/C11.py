"""C11 — bootstrap samples are well-formed resamples of their source."""

from __future__ import annotations

import math

import numpy as np

from .. import gen, monitors

PID = "C11"
ANCHORS = ["scores.py:Scores.bootstrap_sample", "scores.py:Scores._sample_indices", "scores.py:Scores._sampling_method",
           "scores.py:Scores._sample_indices.<locals>._single_pass_sampling"]
RAISES_ARE_VIOLATIONS = True
DECIDING = {"M-bs": 135735, "S-bs": 195}
THOROUGH_EXTRA = ["W2", "W3"]
Z_CRIT = 6.5
RULE = (
    "Every Scores.bootstrap_sample call (also inside bootstrap_metric/ci, roc_with_ci) is observed by M-bs: same cfg; arrays ascending; the "
    "sample's cm at 3 thresholds equals pure-Python counting over the arrays it was constructed from; smoothing off: every sampled score is in "
    "the source's same class (proportion: multiset inclusion = without replacement); >=1 scored pos/neg whenever the source has one; replacement: "
    "total count preserved; by_label+replacement: four strata exact; single_pass+by_label: easy strata exact; proportion: sizes max(int(r*n),1), "
    "int(r*k). Statistical monitor S-bs over K samples of sources with unique scores, >=30 per class/stratum, class ratio in [0.2,0.8] (so the "
    "at-least-one corrections fire with p<1e-12): every source score reachable; mean multiplicity per score, mean class and stratum sizes within "
    "6.5 sigma (variance bounds in props/C11.py) of 1 resp. the source's, confirmed on an independent stream of 4K samples before it counts. "
    "W1 modes: replacement/single_pass/dynamic x None/by_label, smoothing where supported, proportion r in {.1,.34,.5,.9}, sizes 1-40 and "
    "99/100/101/150-400 (asymmetric), easy counts, 4 cfg, ties. Non-trivial: both classes non-empty; distinct = hash of (source, mode, seed)."
    ' Build-phase additions: exact multinomial variance per stratum on lopsided sources (K=4000), Fraction/Decimal ratios, 64-bit integer scores beyond 2**53, classes on opposite sides of the 100-score switch.'
)
ASSUMPTIONS = ["NumPy global RandomState is the only randomness and is seeded per case", "finite scores",
               "statistical clauses: |z| > 6.5 twice (independent streams) is reported; false-alarm probability < 1e-9 per test"]

MODES = [
    ("replacement", None, False, None), ("replacement", "by_label", False, None), ("replacement", None, True, None), ("replacement", "by_label", True, None),
    ("single_pass", None, False, None), ("single_pass", "by_label", False, None),
    ("dynamic", None, False, None), ("dynamic", "by_label", False, None), ("dynamic", None, True, None),
    ("proportion", None, False, 0.1), ("proportion", None, False, 0.34), ("proportion", None, False, 0.5), ("proportion", None, False, 0.9),
    ("proportion", None, False, 0.05), ("proportion", None, False, 0.03),  # a few samples out of many
]


def install(ctx):
    monitors.install_bs(ctx.sess, facets=("c11",))


def _stat_source(rng, big):
    if big:
        npos, nneg = int(rng.choice([99, 100, 101, 150, 300, 400])), int(rng.choice([99, 100, 101, 150, 300, 400]))
    else:
        npos, nneg = int(rng.integers(30, 45)), int(rng.integers(30, 45))
    allv = rng.permutation(npos + nneg).astype(float) * 0.25 - 7.0  # unique
    ep = int(rng.choice([0, 0, 30, 64])) if not big else int(rng.choice([0, 0, 120]))
    en = int(rng.choice([0, 0, 33, 50])) if not big else int(rng.choice([0, 0, 90]))
    # keep the all-sample class ratio inside [0.2, 0.8]
    P, N = npos + ep, nneg + en
    if not (0.2 <= P / (P + N) <= 0.8):
        ep = en = 0
    return allv[:npos], allv[npos:], ep, en


def cases(ctx):
    rng = ctx.rng
    for i in range(ctx.n(320, 900)):
        stat = rng.random() < 0.45
        if stat:
            big = rng.random() < 0.35
            pos, neg, ep, en = _stat_source(rng, big)
            kind = "stat-big" if big else "stat"
            K = 120 if big else 200
            if i % 20 == 11:
                # a small hard stratum beside a large easy count (the documented use: a few scored samples, the rest assumed easy): an
                # expected hard-stratum size off by a fraction of one sample shows only in the mean over thousands of samples
                npos_, nneg_ = int(rng.integers(15, 31)), int(rng.integers(15, 31))
                allv_ = rng.permutation(npos_ + nneg_).astype(float) * 0.25 - 7.0
                pos, neg = allv_[:npos_], allv_[npos_:]
                ep, en = int(rng.choice([5000, 50000, 400])), int(rng.choice([9000, 90000, 600]))
                kind, K = "stat-lopsided", 4000
        else:
            big = rng.random() < 0.1
            pos, neg, kind = gen.scores(rng, min_pos=1, min_neg=1, maxn=40, big=big)
            if rng.random() < 0.2:
                pos = pos[:1]  # one scored positive among many negatives: at-least-one correction territory
            ep, en = gen.easy(rng)
            K = 25
        sc, ec = gen.cfg(rng)
        mode = MODES[int(rng.integers(0, len(MODES)))]
        if stat and kind == "stat-lopsided":
            mode = (str(rng.choice(["replacement", "single_pass", "dynamic"])), None, False, None)
        if not stat and rng.random() < 0.15:
            # degenerate kernel bandwidths: smoothing of (nearly) constant classes, signed zeros, one-sample classes
            pos, neg, kind = gen.scores(rng, min_pos=1, min_neg=1, maxn=int(rng.choice([4, 12, 40])), kinds=["negzero", "pool5", "lattice", "ulp"])
            if rng.random() < 0.5:  # a class that is mostly one signed zero: the interpolated quartiles differ in the sign of zero
                def zeros_mostly(n):
                    return np.where(rng.random(n) < 0.75, float(rng.choice([-0.0, -0.0, 0.0])), rng.choice([0.0, -0.0, 0.1, -0.1, 0.5], n))
                pos, neg, kind = zeros_mostly(int(rng.integers(1, 14))), zeros_mostly(int(rng.integers(1, 14))), "negzero"
            mode = MODES[int(rng.choice([2, 3, 8]))]
        case = {"pos": pos, "neg": neg, "ep": ep, "en": en, "sc": sc, "ec": ec, "kind": kind, "mode": list(mode), "K": K,
                "_seed": int(rng.integers(1 << 31))}
        if i % 20 == 3:
            # the two classes on opposite sides of the 100-score switch of "dynamic" (99/100, 30/400, ...): it must resolve to replacement
            a_, b_ = [(99, 100), (100, 99), (30, 400), (400, 30), (99, 300), (150, 60)][(i // 20) % 6]
            allv_ = rng.permutation(a_ + b_).astype(float) * 0.25 - 7.0
            case.update(pos=allv_[:a_], neg=allv_[a_:], ep=int(rng.choice([0, 0, 40])), en=int(rng.choice([0, 0, 25])), kind="asym-dynamic", K=8,
                        mode=list(MODES[int(rng.choice([6, 7]))]))
        if i % 23 == 6:
            # 64-bit integer scores beyond 2**53 (fixed-point scores, nanosecond timestamps, hashed ranks): a sample without smoothing consists of
            # source scores exactly - a detour through float64 rounds them to values the source does not have (the inclusion clause compares exactly)
            n1, n2 = int(rng.integers(3, 30)), int(rng.integers(3, 30))
            base_ = int(rng.choice([2 ** 53, 2 ** 60, -(2 ** 55), 2 ** 62]))
            vals_ = base_ + rng.permutation(4 * (n1 + n2))[: n1 + n2].astype(np.int64) * int(rng.choice([1, 3]))
            dt_ = np.uint64 if (base_ > 0 and rng.random() < 0.3) else np.int64
            case.update(pos=vals_[:n1].astype(dt_), neg=vals_[n1:].astype(dt_), kind="bigint64", K=6,
                        mode=list(MODES[int(rng.choice([0, 1, 4, 5, 6, 7, 9, 11]))]))
        if i % 25 == 13:
            # the requested fraction as an exact number (fractions.Fraction / decimal.Decimal from a parsed configuration): int(r * k) is then
            # exact, also where the binary product falls just short of the integer (0.29 * 100 = 28.999999999999996)
            n1, n2 = (int(x) for x in rng.choice([20, 25, 40, 50, 100, 200], 2))
            bad = [k for k in range(3, 98) if int((k / 100) * n1) != (k * n1) // 100 or int((k / 100) * n2) != (k * n2) // 100]
            k = int(rng.choice(bad)) if bad and rng.random() < 0.8 else int(rng.integers(3, 98))
            allv_ = rng.permutation(n1 + n2).astype(float) * 0.5 - 3.0
            case.update(pos=allv_[:n1], neg=allv_[n1:], ep=int(rng.choice([0, 100, 300, 700])), en=int(rng.choice([0, 100, 200])), kind="propfrac", K=6,
                        mode=["proportion", None, False, k / 100], ratio_form=str(rng.choice(["fraction", "decimal"])), ratio_pct=k)
        yield case


def scenarios(ctx):
    rng = ctx.rng
    for i in range(ctx.n(5, 10)):
        pos, neg, kind = gen.scores(rng, min_pos=4, min_neg=4, maxn=60, kinds=["gauss", "lattice", "uniform01"], big=bool(rng.random() < 0.3))
        ep, en = gen.easy(rng, cap=50)
        sc, ec = gen.cfg(rng)
        yield {"pos": pos, "neg": neg, "ep": ep, "en": en, "sc": sc, "ec": ec, "kind": "traffic", "mode": ["dynamic", None, False, None], "K": 0,
               "_seed": int(rng.integers(1 << 31))}


def _ztest(sess, name, mean, mu, var_bound, K, confirm, witness, sig):
    """Two-stage z-test; `confirm()` returns (mean, K2) from an independent stream."""
    z = (mean - mu) / np.sqrt(np.asarray(var_bound, dtype=float) / K)
    bad = np.abs(z) > Z_CRIT
    ok = True
    if np.any(bad):
        mean2, K2 = confirm()
        z2 = (mean2 - mu) / np.sqrt(np.asarray(var_bound, dtype=float) / K2)
        ok = not bool(np.any((np.abs(z2) > Z_CRIT) & bad))
        z = np.where(bad, z2, z)
    sess.check("S-bs", ok, name, lambda: dict(witness(), z_max=float(np.max(np.abs(z))), expected=mu if np.ndim(mu) == 0 else "vector"), sig=sig, key="stat-" + name.split(":")[0])


def execute(ctx, case):
    from score_analysis import BootstrapConfig, Scores, roc_with_ci

    sess = ctx.sess
    pos, neg, ep, en, sc, ec = case["pos"], case["neg"], case["ep"], case["en"], case["sc"], case["ec"]
    method, strat, smoothing, ratio = case["mode"]
    if smoothing:  # kernel smoothing is only meaningful for (and only exercised on) floating-point scores
        pos, neg = np.asarray(pos, dtype=float), np.asarray(neg, dtype=float)
    s = Scores(pos, neg, nb_easy_pos=ep, nb_easy_neg=en, score_class=sc, equal_class=ec)
    np.random.seed(case["_seed"])
    if case["kind"] == "traffic":
        roc_with_ci(s, nb_points=6, config=BootstrapConfig(nb_samples=15))
        s.bootstrap_ci("eer", config=BootstrapConfig(nb_samples=15, bootstrap_method="quantile", stratified_sampling="by_label"))
        return True
    if case.get("ratio_form") == "fraction":
        from fractions import Fraction

        ratio = Fraction(int(case["ratio_pct"]), 100)
    elif case.get("ratio_form") == "decimal":
        from decimal import Decimal

        ratio = Decimal(int(case["ratio_pct"])) / Decimal(100)
    cfg = BootstrapConfig(sampling_method=method, stratified_sampling=strat, smoothing=smoothing, ratio=ratio)
    K = case["K"]
    stat = case["kind"].startswith("stat")
    npos, nneg = len(s.pos), len(s.neg)
    spos, sneg = np.asarray(s.pos, dtype=float), np.asarray(s.neg, dtype=float)

    def draw(k):
        mp = np.zeros(npos)
        mn = np.zeros(nneg)
        sizes = np.zeros(4)
        for _ in range(k):
            b = s.bootstrap_sample(cfg)  # judged by M-bs
            if _ < 3 and len(b.pos) and len(b.neg):
                # a sample is a Scores object of its own: resampling it (non-stratified and stratified) is judged by M-bs with the
                # sample as the source - nothing the first-level source knew about itself may leak into the second level
                for m2, st2 in (("replacement", None), ("single_pass", None), ("replacement", "by_label")):
                    b.bootstrap_sample(BootstrapConfig(sampling_method=m2, stratified_sampling=st2))
            if stat:
                if not smoothing:
                    mp += np.bincount(np.searchsorted(spos, b.pos), minlength=npos)[:npos]
                    mn += np.bincount(np.searchsorted(sneg, b.neg), minlength=nneg)[:nneg]
                sizes += (len(b.pos), len(b.neg), b.nb_easy_pos, b.nb_easy_neg)
        return mp, mn, sizes

    mp, mn, sizes = draw(K)
    if stat:
        rm = monitors.resolved_method(s, cfg)
        sig = (method, rm, strat, smoothing, case["kind"], ep > 0, en > 0)
        w = lambda: {"pos": pos, "neg": neg, "easy": [ep, en], "cfg": [sc, ec], "mode": case["mode"], "K": K, "seed": case["_seed"],  # noqa: E731
                     "mean_sizes": (sizes / K).tolist()}
        sess.observe("S-bs")
        cache = {}

        def confirm_all():
            if "c" not in cache:
                cache["c"] = draw(4 * K)
            return cache["c"]

        N_all = s.nb_all_samples
        if method == "proportion":
            mu_p = max(int(ratio * npos), 1) / npos
            mu_n = max(int(ratio * nneg), 1) / nneg
            _ztest(sess, "multiplicity-pos: mean inclusion frequency of some positive score is off", mp / K, mu_p, 0.25, K, lambda: (confirm_all()[0] / (4 * K), 4 * K), w, sig)
            _ztest(sess, "multiplicity-neg: mean inclusion frequency of some negative score is off", mn / K, mu_n, 0.25, K, lambda: (confirm_all()[1] / (4 * K), 4 * K), w, sig)
            sess.check("S-bs", bool(np.all(mp > 0) and np.all(mn > 0)) or K * min(mu_p, mu_n) < 40, "reachability: a source score never appears in K samples", w, sig=sig, key="stat-reach")
            # small fractions: per-score frequencies are too noisy, so pool the lowest and the highest third of each class
            # (hypergeometric count per sample: mean k*m/n, variance below the binomial k*(m/n)(1-m/n))
            for nm, cnt, n_, mu_ in (("pos", mp, npos, mu_p), ("neg", mn, nneg, mu_n)):
                m_ = n_ // 3
                if m_ >= 1:
                    k_ = mu_ * n_
                    pooled = lambda c, m_=m_: np.array([c[:m_].sum(), c[-m_:].sum()])  # noqa: E731
                    idx_ = 0 if nm == "pos" else 1
                    _ztest(sess, "thirds-%s: the lowest/highest third of the %s scores is drawn too often or too rarely" % (nm, nm), pooled(cnt) / K, k_ * m_ / n_,
                           k_ * (m_ / n_) * (1 - m_ / n_) + 1e-12, K, lambda idx_=idx_, pooled=pooled: (pooled(confirm_all()[idx_]) / (4 * K), 4 * K), w, sig)
        else:
            if not smoothing:
                _ztest(sess, "multiplicity-pos: mean multiplicity of some positive score is not 1", mp / K, 1.0, 1.3, K, lambda: (confirm_all()[0] / (4 * K), 4 * K), w, sig)
                _ztest(sess, "multiplicity-neg: mean multiplicity of some negative score is not 1", mn / K, 1.0, 1.3, K, lambda: (confirm_all()[1] / (4 * K), 4 * K), w, sig)
                sess.check("S-bs", bool(np.all(mp > 0) and np.all(mn > 0)), "reachability: a source score never appears in K samples", w, sig=sig, key="stat-reach")
            src = np.array([npos, nneg, ep, en], dtype=float)
            if strat is None:
                # per stratum: the counts of a non-stratified sample are the marginals of one multinomial draw of N_all (binomial thinning of
                # a binomial), variance N_all*q*(1-q); a single pass adds the Poisson/binomial noise of the per-score multiplicities (about
                # the stratum size again) to the two hard strata. 10% slack; far tighter than N_all/2 for a small stratum beside a large one
                q_ = src / N_all
                vb = 1.1 * N_all * q_ * (1 - q_) + 0.5
                if rm != "replacement":
                    vb = vb + np.array([1.1 * npos, 1.1 * nneg, 0.0, 0.0])
            else:
                vb = 2.0 * N_all if rm != "replacement" else N_all / 2.0 + 1.0
            _ztest(sess, "sizes: mean class/stratum sizes differ from the source's", sizes / K, src, vb, K, lambda: (confirm_all()[2] / (4 * K), 4 * K), w, sig)
    sess.sig_counts[("case", case["kind"], method, strat, smoothing, sc, ec)] += 1
    return True
