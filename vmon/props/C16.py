"""C16 — ROC confidence bands are well-formed envelopes of pointwise rectangles."""

from __future__ import annotations

import os

import numpy as np

from .. import gen, monitors

PID = "C16"
ANCHORS = ["roc_curve.py:roc_with_ci", "roc_curve.py:_find_support_thresholds", "roc_curve.py:_add_extra_points", "roc_curve.py:_apply_rule_of_three",
           "roc_curve.py:_aggregate_rectangles", "roc_curve.py:roc_with_ci.<locals>._metric",
           "experimental/roc_ci.py:fixed_width_band_ci", "experimental/roc_ci.py:simultaneous_joint_region_ci", "experimental/roc_ci.py:pointwise_band_ci",
           "experimental/roc_ci.py:_find_tube_radius", "experimental/roc_ci.py:_displace_curve"]
DECIDING = {"M-band": 3567}
THOROUGH_EXTRA = ["W2"]
RULE = (
    "Every call of roc_with_ci, pointwise_band_ci, simultaneous_joint_region_ci and fixed_width_band_ci (module and re-exported names) is "
    "observed by M-band; M-bs records the bootstrap samples drawn during the call. Judged: the call returns (an exception on documented "
    "arguments is a violation); rates == the object's rates at the curve thresholds; bands shape (n,2), NaN-free, lower <= upper; roc_with_ci "
    "bands within [0,1]; closed form for roc_with_ci/pointwise_band_ci, as a chain over the recorded events of the call: (1) the replicates "
    "handed to utils.bootstrap_ci equal [FNR at threshold_at_fpr(curve.fpr), FPR at threshold_at_fnr(curve.fnr)] evaluated on each recorded "
    "sample, the estimate is that metric of the source (exact); (2) that bootstrap_ci call is judged by M-bci against the stdlib reference "
    "formula; (3) from its result: rule-of-three interval iff the curve's rate is exactly 0 or 1 (n = all samples of the class), then the "
    "envelope of all rectangles whose x-interval contains the point, must equal the returned bands (1e-12).  W1: identity / replacement / single_pass / dynamic / by_label samplers, quantile/bc/bca, alpha in {.05,.2,.5}, all "
    "supply combinations, nb_points in {None,2,5,10,21}, easy counts, <= 40 scores per class (+ 130-150), 4 cfg. fixed_width_band_ci only on "
    "supports spanning the curve (nb_points >= 3 or None). Non-trivial: always (both classes non-empty); distinct = hash of inputs and seed."
    ' Build-phase additions: one large curve per run (8500-8800 scores, 1000 replicates), numpy-integer arguments, documented-default relation for the band functions.'
)
ASSUMPTIONS = ["both classes non-empty, finite scores, alpha in (0,1)", "threshold setting and rates on the samples are taken from the library (decided by C01-C03)",
               "the C13 reference model for the interval formula"]
FUNCS = ["roc_with_ci", "roc_with_ci", "roc_with_ci", "pointwise_band_ci", "simultaneous_joint_region_ci", "fixed_width_band_ci"]


def install(ctx):
    monitors.install_bs(ctx.sess, facets=(), keep=True)
    monitors.install_bci(ctx.sess, keep=True)
    monitors.install_band(ctx.sess)


def cases(ctx):
    rng = ctx.rng
    for i in range(ctx.n(1000, 2500)):
        big = rng.random() < 0.06
        if big:
            pos, neg, kind = rng.normal(1, 1, int(rng.integers(130, 150))), rng.normal(-1, 1, int(rng.integers(130, 150))), "gauss-big"
        else:
            pos, neg, kind = gen.scores(rng, min_pos=2, min_neg=2, maxn=40, kinds=["gauss", "lattice", "uniform01", "pool5", "perm", "separated", "intdtype"])
        ep, en = gen.easy(rng, cap=100)
        if rng.random() < 0.5:
            ep = en = 0
        sc, ec = gen.cfg(rng)
        func = str(rng.choice(FUNCS))
        mode = int(rng.integers(0, 5))
        kw = {}
        if mode == 0:
            kw["nb_points"] = int(rng.choice([2, 5, 10, 21]))
        elif mode == 1:
            kw["nb_points"] = None
        elif mode == 2:
            kw["fnr"] = np.sort(rng.uniform(0, 1, 4))
        elif mode == 3:
            kw["thresholds"] = rng.normal(0, 1, 5)
        else:
            kw["fpr"] = rng.uniform(0, 1, 3)
            kw["nb_points"] = int(rng.choice([3, 8]))
        if func == "fixed_width_band_ci":
            kw = {"nb_points": None if rng.random() < 0.4 else int(rng.choice([3, 5, 10, 21, 50]))}
        sampler = str(rng.choice(["identity", "replacement", "single_pass", "dynamic", "by_label"]))
        if i == 5 and getattr(ctx, "shard", 0) == 0 and not os.environ.get("VERIF_C16_NO_LARGE"):
            # one large curve per run: the default configuration (1000 replicates) on a support of more than 8400 points - the
            # replicate array of such a call is above 128 MiB, where an implementation might start to work in blocks; M-band still demands that
            # exactly nb_samples samples are drawn and that every band row comes from those samples
            n_ = int(rng.integers(4250, 4400))
            yield {"pos": rng.normal(1, 1, n_), "neg": rng.normal(-1, 1, n_), "ep": 0, "en": 0, "sc": sc, "ec": ec, "kind": "gauss-large", "func": "roc_with_ci", "kw": {"nb_points": None},
                   "sampler": "replacement", "bm": "quantile", "alpha": 0.05, "nb_samples": 1000, "x_axis": "fpr", "_seed": int(rng.integers(1 << 31))}
            continue
        yield {"pos": pos, "neg": neg, "ep": ep, "en": en, "sc": sc, "ec": ec, "kind": kind, "func": func, "kw": kw, "sampler": sampler,
               "bm": str(rng.choice(["quantile", "bc", "bca"])), "alpha": float(rng.choice([0.05, 0.2, 0.5])),
               "nb_samples": int(rng.choice([3, 10, 25, 60])) if not big else 10, "x_axis": str(rng.choice(["fpr", "fnr", "tpr", "tnr"])),
               "_seed": int(rng.integers(1 << 31))}


def execute(ctx, case):
    import score_analysis
    from score_analysis import BootstrapConfig, Scores
    from score_analysis import experimental as EXP

    s = Scores(case["pos"], case["neg"], nb_easy_pos=case["ep"], nb_easy_neg=case["en"], score_class=case["sc"], equal_class=case["ec"])
    sm = case["sampler"]
    cfg = BootstrapConfig(nb_samples=gen.int_form(case["_seed"] // 5, case["nb_samples"]), bootstrap_method=case["bm"],
                          sampling_method=(lambda x: x) if sm == "identity" else ("replacement" if sm == "by_label" else sm),
                          stratified_sampling="by_label" if sm == "by_label" else None)
    np.random.seed(case["_seed"])
    ctx.sess.bs_log.clear()
    ctx.sess.bci_log.clear()
    kw = dict(case["kw"])
    if kw.get("nb_points") is not None:
        kw["nb_points"] = gen.int_form(case["_seed"], kw["nb_points"])  # a computed number of points is a numpy integer
    if case["func"] == "roc_with_ci":
        A = score_analysis.roc_with_ci(s, alpha=case["alpha"], config=cfg, x_axis=case["x_axis"], **kw)  # judged by M-band
    else:
        A = getattr(EXP, case["func"])(s, alpha=case["alpha"], config=cfg, **kw)
    if case["_seed"] % 4 == 0 and case["func"] != "fixed_width_band_ci":
        # a history across curves: the operating thresholds of the curve just returned are handed (as they are) to later calls as
        # the only support; M-band re-inspects the kept curve and the caller's array on every later call
        np.random.seed(case["_seed"] + 1)
        score_analysis.roc_with_ci(s, alpha=case["alpha"], config=cfg, thresholds=A.thresholds, nb_points=None)
        EXP.pointwise_band_ci(s, alpha=case["alpha"], config=cfg, thresholds=A.thresholds, nb_points=None)
        score_analysis.roc(s, thresholds=A.thresholds, nb_points=None, x_axis=case["x_axis"] if case["func"] == "roc_with_ci" else "fpr")
        score_analysis.roc_with_ci(s, alpha=case["alpha"], config=cfg, nb_points=3)  # one more call: re-inspects all kept curves
    if case["_seed"] % 40 == 7 and len(case["pos"]) + len(case["neg"]) <= 50:
        # documented defaults: alpha=0.05, the default BootstrapConfig (1000 samples, bca, dynamic, no stratification), x_axis="fpr" and, for
        # the bands, nb_points=None (one point per scored sample); leaving them all out must mean exactly that
        explicit = BootstrapConfig(nb_samples=1000, bootstrap_method="bca", sampling_method="dynamic", stratified_sampling=None, smoothing=False, ratio=None)
        f_ = score_analysis.roc_with_ci if case["func"] == "roc_with_ci" else getattr(EXP, case["func"])
        if case["func"] != "fixed_width_band_ci":
            np.random.seed(case["_seed"])
            with np.errstate(all="ignore"):
                B1 = f_(s)
            np.random.seed(case["_seed"])
            with np.errstate(all="ignore"):
                B2 = f_(s, alpha=0.05, config=explicit, nb_points=None, **({"x_axis": "fpr"} if case["func"] == "roc_with_ci" else {}))
            same = all(np.array_equal(np.asarray(getattr(B1, f)), np.asarray(getattr(B2, f)), equal_nan=True) for f in ("fnr", "fpr", "thresholds", "fnr_ci", "fpr_ci"))
            ctx.sess.check("M-band", same, "band function with alpha/config/nb_points/x_axis left out differs from the documented defaults spelled out",
                           lambda: {"func": case["func"], "pos": case["pos"], "neg": case["neg"], "seed": case["_seed"]}, sig=("defaults", case["func"]), key="band-defaults")
    ctx.sess.bs_log.clear()
    ctx.sess.sig_counts[("case", case["func"], case["sc"], case["ec"], case["kind"], sm, case["bm"], tuple(sorted(kw)))] += 1
    return True
