"""C10 — queries are vectorised elementwise, shape-preserving and side-effect free."""

from __future__ import annotations

import numpy as np

from .. import derive, gen, monitors

PID = "C10"
ANCHORS = ["scores.py:Scores.cm", "scores.py:Scores._threshold_at_ratio", "scores.py:Scores._invert_increasing_function", "scores.py:pointwise_cm",
           "metrics.py:tpr", "metrics.py:topr", "cm.py:ConfusionMatrix.__init__"]
RAISES_ARE_VIOLATIONS = True
DECIDING = {"M-state": 174728, "M-shape": 86654, "R-hist": 4047, "M-pw": 6000}
THOROUGH_EXTRA = ["W2"]
RULE = (
    "M-state wraps every public query of Scores/GroupScores (cm, 12 rates, 12 threshold_at_*, threshold_at_metric, eer, auc, swap, "
    "bootstrap_sample/metric/ci, group_cm, group_* rates, indexing): the object's arrays, counts, flags and group arrays and every caller-supplied "
    "array/list argument are snapshotted before the call and compared after it. M-shape on the same calls: cm shape X+(2,2); rates/thresholds "
    "shape X; Python/NumPy scalar or 0-d input gives a plain Python float; each of up to 6 elements equals the scalar call on that element "
    "(exact); per-group rates (G,)+X. R-hist per case: a random history of 20-50 calls on one object (queries of all kinds interleaved, incl. "
    "bootstrap draws in between): every repeated deterministic query returns the identical result, aliases return identical values, "
    "pointwise_cm has shape scores.shape+X+(2,2) and leaves its arguments unchanged. W1: X from () to 3-d incl. size-0 axes, lists, 0-d arrays, "
    "int/float32 scores, easy counts, 4 cfg, Scores and GroupScores. Non-trivial: both classes non-empty; distinct = hash of inputs."
    ' Build-phase additions: NaN thresholds in the elementwise clause, == / != against reconstructions and one-field variants, pointwise_cm call forms with documented defaults left out.'
)
ASSUMPTIONS = ["finite scores, non-NaN thresholds/targets", "NumPy global RandomState seeded per case (bootstrap calls inside a history)"]
RATES = ["tpr", "fnr", "tnr", "fpr", "topr", "tonr"]
ALIAS = {"tpr": "tar", "fnr": "frr", "tnr": "trr", "fpr": "far", "topr": "acceptance_rate", "tonr": "rejection_rate"}


def install(ctx):
    monitors.install_state(ctx.sess)
    monitors.install_pointwise_cm(ctx.sess)  # M-pw: membership by the decision rule on the exact values, whatever container the threshold came in


def cases(ctx):
    rng = ctx.rng
    for i in range(ctx.n(330, 1200)):
        pos, neg, kind = gen.scores(rng, min_pos=1, min_neg=1, maxn=15)
        ep, en = gen.easy(rng)
        sc, ec = gen.cfg(rng)
        grouped = bool(rng.random() < 0.25)
        if not grouped and rng.random() < 0.08:  # an object without any sample of one class: rates of that class are NaN of the threshold's shape
            if rng.random() < 0.5:
                pos, ep = pos[:0], 0
            else:
                neg, en = neg[:0], 0
        yield {"pos": pos, "neg": neg, "ep": 0 if grouped else ep, "en": 0 if grouped else en, "sc": sc, "ec": ec, "kind": kind, "grouped": grouped,
               "L": int(rng.integers(20, 51)), "_seed": int(rng.integers(1 << 31)),
               "pw_big": [(300, 300), (1000, 70), (129, 509)][i] if i < 3 else None}  # three large pointwise problems per run (beyond 2**16 pairs, sizes that divide nothing)


def _equal(a, b):
    if isinstance(a, tuple) and isinstance(b, tuple):
        return len(a) == len(b) and all(_equal(x, y) for x, y in zip(a, b))
    if isinstance(a, list) and isinstance(b, list):
        return len(a) == len(b) and all(_equal(x, y) for x, y in zip(a, b))
    if hasattr(a, "matrix"):
        return np.array_equal(a.matrix, b.matrix)
    if hasattr(a, "pos") and hasattr(b, "pos"):
        return bool(a == b)
    return type(a) is type(b) and np.shape(a) == np.shape(b) and bool(np.array_equal(np.asarray(a), np.asarray(b), equal_nan=True))


def execute(ctx, case):
    from score_analysis import BootstrapConfig, GroupScores, Scores, pointwise_cm

    sess = ctx.sess
    rng = np.random.default_rng(case["_seed"])
    np.random.seed(case["_seed"])
    pos, neg, sc, ec = case["pos"], case["neg"], case["sc"], case["ec"]
    pos0, neg0 = np.array(pos, copy=True), np.array(neg, copy=True)
    if case["grouped"]:
        pg = rng.choice(["a", "b", "c"], len(pos))
        ng = rng.choice(["a", "b", "c"], len(neg))
        s = GroupScores(pos, neg, pos_groups=pg, neg_groups=ng, score_class=sc, equal_class=ec)
    else:
        s = Scores(pos, neg, nb_easy_pos=case["ep"], nb_easy_neg=case["en"], score_class=sc, equal_class=ec)
    sig = (type(s).__name__, sc, ec, case["kind"])
    allv = np.concatenate([np.asarray(pos, float), np.asarray(neg, float)])
    sess.observe("R-hist")
    C = lambda ok, what, key, **kw: sess.check("R-hist", bool(ok), what, dict({"pos": pos0, "neg": neg0, "cfg": [sc, ec], "type": type(s).__name__}, **kw), sig=sig, key=key)  # noqa: E731

    def rand_input(kind):
        form = str(rng.choice(["pyfloat", "npfloat", "0d", "list", "nd", "nd", "nd0", "pyint"]))
        shp = gen.shape(rng, allow_zero=(form == "nd0"))
        if form == "nd0" and all(d > 0 for d in shp):
            shp = shp + (0,)
        size = int(np.prod(shp)) if shp else 1
        if kind == "thr":
            base = gen.thresholds(rng, allv, with_inf=True)
            if rng.random() < 0.12:
                base = np.concatenate([base, [np.nan, np.nan]])  # a missing value in a threshold column: element and scalar call must still agree
        else:
            # exact rates k/N of each population (the interpolation index is then an exact integer) besides generic targets
            pops = [n for n in (len(pos), len(neg), len(pos) + len(neg), len(pos) + case["ep"], len(neg) + case["en"]) if n > 0]
            N_ = int(rng.choice(pops))
            base = np.concatenate([rng.uniform(-0.1, 1.1, 6), [0.0, 1.0], rng.integers(0, N_ + 1, 4) / N_, 1.0 - rng.integers(0, N_ + 1, 2) / N_, np.round(rng.uniform(0, 1, 2), 1)])
        vals = rng.choice(base, max(size, 1))
        if form == "pyfloat":
            return float(vals[0])
        if form == "pyint":
            return int(rng.integers(0, 2))
        if form == "npfloat":
            return np.float64(vals[0])
        if form == "0d":
            return np.asarray(float(vals[0]))
        if form == "list":
            return [float(v) for v in vals[:4]]
        arr = vals[:size].reshape(shp) if size else np.zeros(shp)
        if arr.ndim >= 2 and size:  # same logical values, other memory layouts
            lay = int(rng.integers(0, 4))
            if lay == 1:
                arr = np.asfortranarray(arr)
            elif lay == 2:
                arr = np.ascontiguousarray(arr.T).T  # transposed view of a C array
            elif lay == 3:
                big = np.zeros(tuple(2 * d for d in arr.shape))
                big[tuple(slice(None, None, 2) for _ in arr.shape)] = arr
                arr = big[tuple(slice(None, None, 2) for _ in arr.shape)]  # strided view
        return arr

    memo = {}

    def key_of(name, x, extra=()):
        xa = np.asarray(x)
        return (name, type(x).__name__, xa.shape, xa.tobytes(), extra)

    ops = ["rate", "rate", "thr", "thr", "cm", "eer", "auc", "swap", "boot", "tam"] + (["grate", "gcm", "getitem"] if case["grouped"] else [])
    if len(pos) == 0 or len(neg) == 0:
        ops = ["rate", "rate", "rate", "cm", "swap"]  # everything else needs both classes
    for step in range(case["L"]):
        op = str(rng.choice(ops))
        if op == "rate":
            m = str(rng.choice(RATES))
            x = rand_input("thr") if not memo or rng.random() < 0.6 else None
            if x is None:
                continue
            r = getattr(s, m)(x)
            ra = getattr(s, ALIAS[m])(x)
            C(_equal(r, ra), "alias returns a different value", "hist-alias", method=m)
            k = key_of(m, x)
        elif op == "thr":
            m = str(rng.choice(RATES))
            meth = str(rng.choice(["linear", "lower", "higher"]))
            x = rand_input("tgt")
            r = getattr(s, "threshold_at_" + m)(x, method=meth)
            ra = getattr(s, "threshold_at_" + ALIAS[m])(x, method=meth)
            C(_equal(r, ra), "threshold alias returns a different value", "hist-alias-thr", method=m)
            k = key_of("thr_" + m, x, (meth,))
        elif op == "cm":
            x = rand_input("thr")
            r = s.cm(x)
            C(_equal(r, s.confusion_matrix(x)), "confusion_matrix alias differs from cm", "hist-alias-cm")
            k = key_of("cm", x)
        elif op == "eer":
            try:
                r = s.eer()
            except ValueError:
                if monitors.moderate_magnitude(s):
                    raise
                continue  # the root search gives up on scores near the float range limits (outside C06's claimed magnitudes); nothing to compare
            k = ("eer",)
        elif op == "auc":
            lo, up = sorted(float(v) for v in rng.choice([0.0, 1.0, 0.25, 0.6], 2))
            r = s.auc(lo, up)
            k = ("auc", lo, up)
        elif op == "swap":
            r = s.swap()
            k = ("swap",)
        elif op == "tam":
            if len(np.unique(allv)) < 2:
                continue
            r = s.threshold_at_metric(np.array([0.3, 0.6]), "fnr")
            k = ("tam",)
            # user-supplied evaluation points as an array in arbitrary order: the array is the caller's, it must come back untouched
            if float(np.abs(allv).max()) < 1e150:
                pts_ = np.linspace(float(np.min(allv)), float(np.max(allv)), 9)[np.random.default_rng(case["_seed"] + step).permutation(9)]
                pts0_ = pts_.copy()
                s.threshold_at_metric(np.array([0.3, 0.6]), "fpr", pts_)
                C(np.array_equal(pts_, pts0_, equal_nan=True), "threshold_at_metric changed the caller's points array", "hist-tam-points", before=pts0_, after=pts_)
        elif op == "boot":  # non-deterministic: only interleaved, never memoised
            s.bootstrap_sample(BootstrapConfig(sampling_method=str(rng.choice(["replacement", "single_pass", "dynamic"]))))
            continue
        elif op == "grate":
            m = str(rng.choice(RATES))
            x = rand_input("thr")
            r = getattr(s, "group_" + m)(x)
            C(_equal(r, getattr(s, "group_" + ALIAS[m])(x)), "group alias returns a different value", "hist-alias-group", method=m)
            k = key_of("g" + m, x)
        elif op == "gcm":
            x = rand_input("thr")
            r = s.group_cm(x)
            k = key_of("gcm", x)
        else:
            g = str(rng.choice(list(s.groups)))
            r = s[g]
            k = ("getitem", g)
        if k in memo:
            C(_equal(memo[k], r), "a repeated deterministic query returned a different result later in the history", "hist-repeat", query=str(k[0]), step=step)
        else:
            memo[k] = r
            if len(memo) > 1 and rng.random() < 0.35:  # re-issue an earlier query now
                k2 = list(memo)[int(rng.integers(0, len(memo)))]
                if k2[0] in RATES and len(k2) == 5:
                    again = getattr(s, k2[0])(np.frombuffer(k2[3]).reshape(k2[2]) if k2[1] == "ndarray" and np.prod(k2[2]) else np.zeros(k2[2]))
                    if k2[1] == "ndarray":
                        C(_equal(memo[k2], again), "a repeated deterministic query returned a different result later in the history", "hist-repeat", query=k2[0], step=step)
    C(np.array_equal(pos, pos0) and np.array_equal(neg, neg0), "the constructor inputs were mutated by some query", "hist-ctor-args")
    if not case["grouped"]:
        # == is a deterministic query, too (and what callers use to compare objects): after the whole history the object still equals a
        # reconstruction from the same inputs, and differs from an object with one field changed
        kw_ = dict(nb_easy_pos=case["ep"], nb_easy_neg=case["en"], score_class=sc, equal_class=ec)
        C(bool(s == Scores(pos0, neg0, **kw_)), "after the history the object no longer equals a reconstruction from the same inputs", "hist-eq-same")
        variants = {"nb_easy_pos": Scores(pos0, neg0, **dict(kw_, nb_easy_pos=case["ep"] + 1)), "nb_easy_neg": Scores(pos0, neg0, **dict(kw_, nb_easy_neg=case["en"] + 1)),
                    "equal_class": Scores(pos0, neg0, **dict(kw_, equal_class="neg" if ec == "pos" else "pos")), "score_class": Scores(pos0, neg0, **dict(kw_, score_class="neg" if sc == "pos" else "pos"))}
        if len(pos0) and np.isfinite(np.nextafter(np.max(allv), np.inf)):
            variants["one_score"] = Scores(np.concatenate([np.asarray(pos0, dtype=float)[:-1], [float(np.nextafter(np.max(allv), np.inf))]]), neg0, **kw_)  # a value no input score has
        for nm_, o_ in variants.items():
            C(not bool(s == o_) and not bool(o_ == s), "objects differing in one field compare equal", "hist-eq-differs", differs_in=nm_)
    # pointwise_cm: shape and argument preservation
    labels = np.concatenate([np.ones(len(pos), dtype=int), np.zeros(len(neg), dtype=int)])
    sv = np.concatenate([np.asarray(pos), np.asarray(neg)])
    sshape = (len(sv),) if rng.random() < 0.6 or len(sv) % 2 else (2, len(sv) // 2)
    th = rand_input("thr")
    l0, s0 = labels.copy(), sv.copy()
    th0 = th.copy() if isinstance(th, np.ndarray) else th
    pw = pointwise_cm(labels.reshape(sshape), sv.reshape(sshape), th, **derive.call_form(case["_seed"], dict(score_class=sc, equal_class=ec)))  # judged by M-pw against the documented defaults
    C(pw.shape == sshape + np.shape(th) + (2, 2) and pw.dtype == bool, "pointwise_cm shape is not scores.shape+threshold.shape+(2,2)", "hist-pw-shape", got=pw.shape, thr_shape=np.shape(th), scores_shape=sshape)
    C(np.array_equal(labels, l0) and np.array_equal(sv, s0) and (not isinstance(th, np.ndarray) or np.array_equal(th, th0, equal_nan=True)), "pointwise_cm mutated an argument", "hist-pw-args")
    # elementwise: slice j of the vectorised result equals the call with element j as a plain Python scalar / numpy scalar / 0-d array
    tv = np.asarray(gen.thresholds(rng, allv, with_inf=True)[:6], dtype=float)
    pwv = pointwise_cm(labels, sv, tv, **derive.call_form(case["_seed"] + 1, dict(score_class=sc, equal_class=ec)))
    for j in range(len(tv)):
        for form, x in (("python float", float(tv[j])), ("np.float64", np.float64(tv[j])), ("0-d array", np.asarray(tv[j]))):
            one = pointwise_cm(labels, sv, x, score_class=sc, equal_class=ec)
            C(one.shape == (len(sv), 2, 2) and np.array_equal(one, pwv[:, j]), "pointwise_cm: an element of the vectorised result differs from the scalar call on that element",
              "hist-pw-elementwise", threshold=float(tv[j]), form=form, scores_dtype=str(sv.dtype))
    if case.get("pw_big"):
        nS, nT = case["pw_big"]
        bs = rng.normal(0, 1, nS).round(2)  # ties between scores and thresholds
        bl = rng.integers(0, 2, nS)
        bt = np.concatenate([rng.choice(bs, nT // 2), rng.normal(0, 1, nT - nT // 2)])
        big = pointwise_cm(bl, bs, bt, score_class=sc, equal_class=ec)  # judged by M-pw (membership by the decision rule, every pair)
        again = pointwise_cm(bl, bs, bt, score_class=sc, equal_class=ec)
        C(np.array_equal(big, again), "pointwise_cm: a repeated call returned a different result", "hist-pw-repeat", sizes=[nS, nT])
        ref_s = Scores(bs[bl == 1], bs[bl == 0], score_class=sc, equal_class=ec)
        C(np.array_equal(big.sum(axis=0), ref_s.cm(bt).matrix), "pointwise_cm summed over samples differs from Scores.cm (large problem)", "hist-pw-sum", sizes=[nS, nT])
        j_ = int(rng.integers(0, nT))
        C(np.array_equal(big[:, j_], pointwise_cm(bl, bs, float(bt[j_]), score_class=sc, equal_class=ec)) and np.array_equal(big[:, -1], pointwise_cm(bl, bs, float(bt[-1]), score_class=sc, equal_class=ec)),
          "pointwise_cm: an element of the vectorised result differs from the scalar call on that element (large problem)", "hist-pw-elementwise", sizes=[nS, nT], index=j_)
    # ConfusionMatrix queries (binary, from cm(); and a multiclass one): judged by M-state, repeated queries identical
    from score_analysis import ConfusionMatrix

    cmx = s.cm(rand_input("thr"))
    K = int(rng.integers(2, 5))
    mc = ConfusionMatrix(matrix=rng.integers(0, 7, (int(rng.integers(1, 3)), K, K)))
    # binary matrices of every numeric kind (float64 weights, float32, fractional), also stacked and with zero rows; caller-owned arrays
    lead_ = tuple(int(x) for x in rng.integers(1, 4, int(rng.integers(0, 3))))
    fm = rng.uniform(0, 5, lead_ + (2, 2)) * (rng.random(lead_ + (2, 1)) < 0.85)
    fdt = [np.float64, np.float64, np.float32][int(rng.integers(0, 3))]
    caller = np.array(fm, dtype=fdt)
    caller0 = caller.copy()
    bf = ConfusionMatrix(matrix=caller, binary=True)
    bnames = ["tpr", "tar", "fnr", "tnr", "fpr", "ppv", "npv", "accuracy", "tpr_ci", "topr", "tonr", "pop", "p", "n"]
    bnames = [bnames[i] for i in rng.permutation(len(bnames))]
    from score_analysis import metrics as MET

    for fn_ in ("tpr", "fnr", "tnr", "fpr", "ppv", "npv", "topr", "tonr", "accuracy"):
        getattr(MET, fn_)(caller)
    C(np.array_equal(caller, caller0, equal_nan=True), "a metric changed the caller's float matrix", "hist-metric-args", dtype=str(caller.dtype))
    for obj, names in ((cmx, ["tpr", "fnr", "ppv", "accuracy", "tpr_ci", "pop", "topr"]), (mc, ["tpr", "ppv", "class_accuracy", "fnr_ci", "accuracy", "one_vs_all", "tp"]), (bf, bnames)):
        m0 = np.array(obj.matrix, copy=True)
        first = {}
        for _ in range(2):
            for nm in names:
                r = getattr(obj, nm)()
                if nm in first:
                    C(_equal(first[nm], r), "a repeated ConfusionMatrix query returned a different result", "hist-repeat-cm", method=nm)
                first[nm] = r
        C(np.array_equal(obj.matrix, m0, equal_nan=True), "ConfusionMatrix queries changed the matrix", "hist-cm-matrix")
    C(np.array_equal(caller, caller0, equal_nan=True), "ConfusionMatrix queries changed the array the matrix was built from", "hist-cm-caller-array")
    sess.sig_counts[("case",) + sig] += 1
    return True
