"""C19 — FraudScores is a faithful, validated genuine/fraud view of Scores."""

from __future__ import annotations

import warnings

import numpy as np

from .. import gen, monitors

PID = "C19"
ANCHORS = ["applications/doc_fraud.py:FraudScores.__init__", "applications/doc_fraud.py:FraudScores.from_labels", "applications/doc_fraud.py:FraudScores.genuines",
           "applications/doc_fraud.py:FraudScores.frauds", "applications/doc_fraud.py:doc_to_binary_label", "applications/doc_fraud.py:binary_to_doc_label"]
DECIDING = {"R-fraud": 16477}
THOROUGH_EXTRA = ["W2"]
RULE = (
    "R-fraud per case: every query of FraudScores(genuines, frauds, easy counts, score_class) - cm, six rates, six threshold_at_* x 3 methods, "
    "eer, auc, swap, bootstrap samples under the same seed - equals that of Scores(pos=genuines, neg=frauds, translated score_class, "
    "equal_class='pos') (exact); genuines/frauds alias pos/neg (also through the setters); from_labels splits by the genuine label (any label "
    "type); the two label translations are mutually inverse on all four values (strings and enum members); construction raises ValueError iff "
    "some score lies outside [0,1] (boundary values 0, 1, -0.0, +-1 ulp, float32/int dtypes), and nothing else is raised. W1: in-range score "
    "classes (uniform, lattice k/5, boundary-heavy, empty classes), easy counts, both score classes, out-of-range injections. Non-trivial: at "
    "least one scored sample; distinct = hash of inputs."
    ' Build-phase additions: boolean/float/empty-string labels either way round, 2-d label arrays, == / != against other Scores objects, one set of a million scores per class per run.'
)
ASSUMPTIONS = ["finite scores", "the heuristic score_class warning is not part of the property and is silenced"]
METRICS = ["tpr", "fnr", "tnr", "fpr", "topr", "tonr"]


def install(ctx):
    monitors.install_ctor_snapshot(ctx.sess)
    ctx.sess.ctor_user_sorted_ok = True


def cases(ctx):
    rng = ctx.rng
    one_up = float(np.nextafter(1.0, 2.0))
    for i in range(ctx.n(900, 3000)):
        kind = str(rng.choice(["uniform", "lattice", "boundary", "float32", "int01", "uint01", "bool"]))
        ng, nf = int(rng.integers(0, 11)), int(rng.integers(0, 11))
        if kind == "uniform":
            g, f = rng.uniform(0, 1, ng), rng.uniform(0, 1, nf)
        elif kind == "lattice":
            g, f = rng.integers(0, 6, ng) / 5.0, rng.integers(0, 6, nf) / 5.0
        elif kind == "uint01":
            g, f = rng.integers(0, 2, ng).astype(np.uint8), rng.integers(0, 2, nf).astype(np.uint8)
        elif kind == "bool":
            g, f = rng.integers(0, 2, ng).astype(bool), rng.integers(0, 2, nf).astype(bool)
        elif kind == "int01":
            g, f = rng.integers(0, 2, ng), rng.integers(0, 2, nf)
        elif kind == "boundary":
            pool = np.array([0.0, 1.0, -0.0, float(np.nextafter(1.0, 0.0)), 5e-324, 0.5])
            g, f = rng.choice(pool, ng), rng.choice(pool, nf)
        else:
            g, f = rng.uniform(0, 1, ng).astype(np.float32), rng.uniform(0, 1, nf).astype(np.float32)
        bad = None
        if rng.random() < 0.35:
            bad = {"value": float(rng.choice([-0.01, 1.01, 2.0, -1e-12, one_up, -5e-324, -1.0, 1e9, 0.0, 1.0, 0.5, np.inf, -np.inf, np.inf, 1.7e308])), "where": str(rng.choice(["g", "f"])),
                   "with_nan": bool(rng.random() < 0.35), "front": bool(rng.random() < 0.5)}
        ep, en = gen.easy(rng)
        if i == 4 and getattr(ctx, "shard", 0) == 0:
            # one large evaluation set per run (a million and more scores per class): the fraud view must still hold exactly the sorted scores
            n_g, n_f = int(rng.choice([1_000_000, 1_000_003, 1_048_576])), int(rng.choice([1_000_000, 1_200_000]))
            g, f, kind, bad = rng.random(n_g), rng.random(n_f) * 0.9, "large", None
        yield {"g": g, "f": f, "ep": ep, "en": en, "scl": str(rng.choice(["genuine", "fraud"])), "kind": kind, "bad": bad,
               "u": rng.uniform(0, 1, 8), "_seed": int(rng.integers(1 << 31))}


def execute(ctx, case):
    from score_analysis import BinaryLabel, BootstrapConfig, Scores
    from score_analysis.applications import DocLabel, FraudScores, binary_to_doc_label, doc_to_binary_label

    sess = ctx.sess
    warnings.simplefilter("ignore")
    g, f, ep, en, scl = case["g"], case["f"], case["ep"], case["en"], case["scl"]
    sig = (scl, case["kind"], ep > 0, en > 0, "bad" if case["bad"] else "ok")
    w = lambda **kw: (lambda: dict({"genuines": g, "frauds": f, "easy": [ep, en], "score_class": scl}, **kw))  # noqa: E731
    sess.observe("R-fraud")
    C = lambda ok, what, key, **kw: sess.check("R-fraud", bool(ok), what, w(**kw), sig=sig, key=key)  # noqa: E731
    for l in ("pos", "neg", BinaryLabel.pos, BinaryLabel.neg):
        C(doc_to_binary_label(binary_to_doc_label(l)) == BinaryLabel(l), "binary -> doc -> binary label is not the identity", "fraud-label-inverse", label=str(l))
    for l in ("genuine", "fraud", DocLabel.pos, DocLabel.neg):
        C(binary_to_doc_label(doc_to_binary_label(l)) == DocLabel(l), "doc -> binary -> doc label is not the identity", "fraud-label-inverse2", label=str(l))
    C(doc_to_binary_label("genuine") == BinaryLabel.pos and doc_to_binary_label("fraud") == BinaryLabel.neg, "genuine/fraud do not translate to pos/neg", "fraud-label-map")
    if case["bad"] is not None:
        v = case["bad"]["value"]
        extra = [v, float("nan")] if case["bad"].get("with_nan") else [v]  # a NaN next to the injected value must not blind the check
        if case["bad"].get("front"):
            extra = extra[::-1]
        inj = lambda a: np.concatenate([extra, np.asarray(a, dtype=float)]) if case["bad"].get("front") else np.concatenate([np.asarray(a, dtype=float), extra])  # noqa: E731
        gg = inj(g) if case["bad"]["where"] == "g" else g
        ff = inj(f) if case["bad"]["where"] == "f" else f
        out_of_range = v < 0 or v > 1
        try:
            FraudScores(genuines=gg, frauds=ff, nb_easy_genuines=ep, nb_easy_frauds=en, score_class=scl)
            raised = None
        except ValueError as e:
            raised = e
        except Exception as e:  # noqa: BLE001
            C(False, "construction raised something other than ValueError", "fraud-raise-type", exc=repr(e), injected=v)
            return True
        C((raised is not None) == out_of_range, "construction must raise ValueError exactly when a score lies outside [0,1]", "fraud-raise-iff", injected=v, where=case["bad"]["where"], raised=repr(raised))
    try:
        fs = FraudScores(genuines=g, frauds=f, nb_easy_genuines=ep, nb_easy_frauds=en, score_class=scl)
    except Exception as e:  # noqa: BLE001
        C(False, "construction raised although every score lies in [0,1]", "fraud-raise-iff", exc=repr(e))
        return True
    ref = Scores(g, f, nb_easy_pos=ep, nb_easy_neg=en, score_class="pos" if scl == "genuine" else "neg", equal_class="pos")
    if case["kind"] == "large":
        # the cheap part of the relation on a large set: the stored arrays, the matrices around the lowest / highest scores, the end-of-scale thresholds
        sg, sf = np.sort(np.asarray(g)), np.sort(np.asarray(f))
        C(np.array_equal(fs.genuines, sg) and np.array_equal(fs.frauds, sf) and np.array_equal(fs.pos, ref.pos) and np.array_equal(fs.neg, ref.neg),
          "large set: genuines / frauds are not the sorted input scores", "fraud-large-arrays", first_genuines=np.asarray(fs.genuines[:3]), expected=sg[:3])
        thr_ = np.array([sg[0], (sg[0] + sg[1]) / 2, sg[1], sf[0], (sf[0] + sf[1]) / 2, sf[1], sg[-1], sf[-1], 0.5])
        C(np.array_equal(fs.cm(thr_).matrix, ref.cm(thr_).matrix), "large set: confusion matrices differ from the equivalent Scores", "fraud-large-cm")
        for m_, r_ in (("tpr", 1.0), ("fnr", 0.0), ("fpr", 1.0), ("tnr", 0.0), ("tpr", 0.0), ("fpr", 0.0), ("topr", 1.0), ("tonr", 1.0)):
            C(getattr(fs, "threshold_at_" + m_)(r_) == getattr(ref, "threshold_at_" + m_)(r_), "large set: end-of-scale threshold differs from the equivalent Scores", "fraud-large-thr", metric=m_, target=r_)
        sess.sig_counts[("case",) + sig] += 1
        return True
    if case["_seed"] % 3 == 0:
        # a history on one object: it held other scores (other class sizes), answered every kind of query about them, and then had its
        # score arrays replaced through the genuines/frauds setters (sorted, as the class keeps them) - it must now be the view of (g, f)
        hr = np.random.default_rng(case["_seed"] + 5)
        fs = FraudScores(genuines=hr.uniform(0, 1, int(hr.integers(1, 9))), frauds=hr.uniform(0, 1, int(hr.integers(1, 9))), nb_easy_genuines=ep, nb_easy_frauds=en, score_class=scl)
        q = np.array([0.0, 0.3, 0.8, 1.0])
        for m_ in [METRICS[i] for i in hr.permutation(len(METRICS))][: int(hr.integers(1, len(METRICS) + 1))]:
            getattr(fs, "threshold_at_" + m_)(q)
            getattr(fs, m_)(q)
        fs.cm(q), fs.eer(), fs.auc(), fs.nb_all_pos, fs.hard_neg_ratio
        if hr.random() < 0.5:
            fs.genuines, fs.frauds = ref.pos.copy(), ref.neg.copy()
        else:
            fs.frauds, fs.genuines = ref.neg.copy(), ref.pos.copy()
    C(np.array_equal(fs.genuines, ref.pos) and np.array_equal(fs.frauds, ref.neg) and fs.genuines is fs.pos and fs.frauds is fs.neg, "genuines/frauds do not alias pos/neg", "fraud-alias")
    C(fs == ref and fs.score_class == ref.score_class and fs.equal_class == BinaryLabel.pos and (fs.nb_easy_pos, fs.nb_easy_neg) == (ep, en), "FraudScores state differs from the equivalent Scores", "fraud-state")
    allv = np.concatenate([np.asarray(g, float), np.asarray(f, float)])
    rng = np.random.default_rng(case["_seed"])
    ths = gen.thresholds(rng, allv)
    C(np.array_equal(fs.cm(ths).matrix, ref.cm(ths).matrix), "cm differs from the equivalent Scores", "fraud-cm")
    rs = np.concatenate([[0.0, 1.0, -0.2, 1.3], case["u"]])
    for m in METRICS:
        if not np.array_equal(getattr(fs, m)(ths), getattr(ref, m)(ths), equal_nan=True):
            C(False, "a rate differs from the equivalent Scores", "fraud-rate", metric=m)
        if len(monitors.relevant_scores(ref, m)):
            for method in ("linear", "lower", "higher"):
                C(np.array_equal(getattr(fs, "threshold_at_" + m)(rs, method=method), getattr(ref, "threshold_at_" + m)(rs, method=method)), "a threshold differs from the equivalent Scores", "fraud-thr", metric=m, method=method)
    if len(g) and len(f):
        C(fs.eer() == ref.eer(), "eer differs from the equivalent Scores", "fraud-eer")
        C(fs.auc() == ref.auc() and fs.auc(0.1, 0.6) == ref.auc(0.1, 0.6), "auc differs from the equivalent Scores", "fraud-auc")
        np.random.seed(case["_seed"])
        b1 = fs.bootstrap_sample(BootstrapConfig(sampling_method="replacement"))
        np.random.seed(case["_seed"])
        b2 = ref.bootstrap_sample(BootstrapConfig(sampling_method="replacement"))
        C(b1 == b2, "bootstrap sample under the same seed differs from the equivalent Scores", "fraud-bootstrap")
        # every sampling configuration, and the derived bootstrap queries: same seed, same result as the equivalent Scores
        for cfg_kw in (dict(sampling_method="replacement", smoothing=True), dict(sampling_method="dynamic", smoothing=True, stratified_sampling="by_label"),
                       dict(sampling_method="single_pass"), dict(sampling_method="replacement", stratified_sampling="by_label"), dict(sampling_method="proportion", ratio=0.6)):
            if cfg_kw.get("smoothing") and np.asarray(ref.pos).dtype.kind != "f":
                continue  # kernel smoothing is exercised on floating-point scores only
            outs = []
            for obj in (fs, ref):
                np.random.seed(case["_seed"] + 3)
                smp = [obj.bootstrap_sample(BootstrapConfig(**cfg_kw)) for _ in range(3)]
                np.random.seed(case["_seed"] + 4)
                ci_ = obj.bootstrap_ci("fnr", threshold=np.array([0.02, 0.5, 0.97]), config=BootstrapConfig(nb_samples=8, bootstrap_method="quantile", **cfg_kw))
                outs.append((smp, ci_))
            C(all(a_ == b_ for a_, b_ in zip(outs[0][0], outs[1][0])) and np.array_equal(outs[0][1], outs[1][1], equal_nan=True),
              "bootstrap samples / intervals under the same seed differ from the equivalent Scores", "fraud-bootstrap-cfg", config={k: str(v) for k, v in cfg_kw.items()})
    sw, rsw = fs.swap(), ref.swap()
    C(sw == rsw, "swap differs from the equivalent Scores", "fraud-swap")
    # equality is a query like any other: against every other object the fraud view answers what the equivalent Scores answers
    r_sc = "pos" if scl == "genuine" else "neg"
    others = {"equal_class": Scores(g, f, nb_easy_pos=ep, nb_easy_neg=en, score_class=r_sc, equal_class="neg"),
              "score_class": Scores(g, f, nb_easy_pos=ep, nb_easy_neg=en, score_class="neg" if r_sc == "pos" else "pos", equal_class="pos"),
              "easy_count": Scores(g, f, nb_easy_pos=ep + 1, nb_easy_neg=en, score_class=r_sc, equal_class="pos"),
              "classes_exchanged": Scores(f, g, nb_easy_pos=ep, nb_easy_neg=en, score_class=r_sc, equal_class="pos"),
              "same": Scores(g, f, nb_easy_pos=ep, nb_easy_neg=en, score_class=r_sc, equal_class="pos")}
    for what_, o_ in others.items():
        C((fs == o_) == (ref == o_) and (o_ == fs) == (o_ == ref) and (fs != o_) == (ref != o_), "== / != against another Scores object differ from the equivalent Scores",
          "fraud-eq", differs_in=what_, fraud_eq=bool(fs == o_), scores_eq=bool(ref == o_))
    # from_labels with an arbitrary genuine label
    # (any label type: ints either way round, strings, booleans either way round - an is_fraud column has genuine_label=False -, floats)
    for glab, other in ((1, 0), ("ok", "bad"), (7, 3), (0, 1), (False, True), (True, False), (0.0, 1.0), ("", "fraud")):
        labels = np.array([glab] * len(g) + [other] * len(f), dtype=object if isinstance(glab, str) else None)
        sc_all = np.concatenate([np.asarray(g, float), np.asarray(f, float)])
        perm = rng.permutation(len(sc_all))
        lab_in = labels[perm] if len(perm) else labels
        if (case.get("_seed", 0) + len(str(glab))) % 3 == 0:
            lab_in = lab_in.tolist()  # a plain list of labels
        kw_l = dict(genuine_label=glab, nb_easy_genuines=ep, nb_easy_frauds=en, score_class=scl)
        if glab == 1 and type(glab) is int and case.get("_seed", 0) % 2:
            del kw_l["genuine_label"]  # the documented default
        if scl == "genuine" and (case.get("_seed", 0) // 2 + len(repr(glab))) % 2:
            del kw_l["score_class"]  # "genuine" is the documented default
        if ep == 0 and en == 0 and case.get("_seed", 0) % 3 == 1:
            del kw_l["nb_easy_genuines"], kw_l["nb_easy_frauds"]
        sc_in = sc_all[perm] if len(perm) else sc_all
        shape_form = "flat"
        n_ = len(sc_in)
        if n_ and not isinstance(lab_in, list):
            # labels and scores of matching shape, not necessarily 1-d: a row vector (batched model output), a column, an (r, c) block
            shape_form = ["flat", "row", "column", "block", "flat"][(case.get("_seed", 0) // 3 + len(repr(glab))) % 5]
            shp_ = {"row": (1, n_), "column": (n_, 1), "block": (2, n_ // 2) if n_ % 2 == 0 else (1, n_)}.get(shape_form)
            if shp_ is not None:
                lab_in, sc_in = lab_in.reshape(shp_), sc_in.reshape(shp_)
        fl = FraudScores.from_labels(lab_in, sc_in, **kw_l)
        C(fl == ref and isinstance(fl, FraudScores), "from_labels does not split by the genuine label", "fraud-from-labels", genuine_label=repr(glab), labels_dtype=str(labels.dtype),
          got_sizes=[len(fl.genuines), len(fl.frauds)], want_sizes=[len(g), len(f)], shape=shape_form)
    # setters keep the alias
    fs2 = FraudScores(genuines=g, frauds=f, score_class=scl)
    newg = np.sort(np.asarray(g, float))[::2]
    fs2.genuines = newg
    C(fs2.pos is newg and fs2.genuines is newg, "genuines setter does not alias pos", "fraud-setter")
    sess.sig_counts[("case",) + sig] += 1
    return bool(len(g) + len(f) > 0)
