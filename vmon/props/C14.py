"""C14 — bootstrapped metrics/intervals are what the sampler and the CI formula produce."""

from __future__ import annotations

import numpy as np

from .. import gen, monitors

PID = "C14"
ANCHORS = ["scores.py:Scores.bootstrap_metric", "scores.py:Scores.bootstrap_ci", "scores.py:Scores.bootstrap_sample", "utils.py:bootstrap_ci"]
RAISES_ARE_VIOLATIONS = True
DECIDING = {"R-boot": 2095, "M-bci": 703}
QUICK_EXTRA = ["W3"]
THOROUGH_EXTRA = ["W2", "W3"]
RULE = (
    "M-bs records every sample produced during a call, M-bci records and judges (stdlib reference) what reached the CI formula. R-boot per "
    "case: bootstrap_metric has nb_samples rows of the metric's own shape and dtype, row j == metric(recorded sample j) (exact, NaN-aware); "
    "with a counting deterministic custom sampler the j-th recorded sample is the sampler's j-th product and the sampler received the source; "
    "kwargs reach the metric; metric names resolve on type(self) ('group_fnr' on GroupScores has shape (S,G,T)); bootstrap_ci hands the CI "
    "formula exactly (replicates from the recorded samples, metric(original), alpha, config.bootstrap_method) and returns its result; an "
    "identity sampler collapses both limits onto the point estimate; the same global seed reproduces every result bit-for-bit, a different "
    "seed changes the replicates (sources with >= 20 scores). W3 (R-hashseed): the same seeded bootstrap computations on GroupScores with string labels are repeated in child processes started with other PYTHONHASHSEED values and must give bit-identical digests. W1: metrics by name (fnr, eer, threshold_at_fpr with method=, auc with kwargs, "
    "group_fnr) and callables with scalar / vector / matrix / integer output; all built-in sampling configurations; quantile/bc/bca; "
    "Scores and GroupScores. Non-trivial: always; distinct = hash of inputs."
    ' Build-phase additions: uint8-valued and tiny-unit metrics, documented-default relations for BootstrapConfig / bootstrap_ci / bootstrap_sample.'
)
ASSUMPTIONS = ["both classes non-empty", "NumPy global RandomState seeded per case", "the C13 reference model for the interval formula"]
SAMPLERS = [("replacement", None), ("replacement", "by_label"), ("single_pass", None), ("single_pass", "by_label"), ("dynamic", None), ("dynamic", "by_label"),
            ("proportion", None), ("custom", None), ("identity", None)]
METRICS = ["fnr", "eer", "thr", "auc", "cm_int", "vec_callable", "scalar_callable", "tpr_alias", "partly_nan", "partly_nan", "rng_callable", "uint_callable", "tiny_callable"]


def digest_cases(seed, n):
    """Deterministic bootstrap computations on GroupScores/Scores with string labels; run both in the checking process and in
    child processes started with other PYTHONHASHSEED values: 'for a fixed global RNG seed all bootstrap results are
    reproducible' must not depend on the interpreter's hash randomisation (iteration order of sets/dicts of labels)."""
    import hashlib

    from score_analysis import BootstrapConfig, GroupScores

    rng = np.random.default_rng([seed, 99])
    names = ["north", "south", "east", "west", "centre", "x_1", "Zeta"]
    out = []
    for i in range(n):
        G = int(rng.integers(2, 7))
        npos, nneg = (int(rng.integers(20, 60)), int(rng.integers(20, 60))) if i % 3 else (int(rng.integers(100, 130)), int(rng.integers(100, 130)))
        gs = GroupScores(rng.normal(1, 1, npos), rng.normal(0, 1, nneg), pos_groups=rng.choice(names[:G], npos), neg_groups=rng.choice(names[:G], nneg))
        cfg = BootstrapConfig(nb_samples=6, bootstrap_method="quantile", sampling_method=["replacement", "dynamic", "single_pass"][i % 3],
                              stratified_sampling=[None, "by_group", "by_label", "by_group"][i % 4] if i % 3 != 2 else [None, "by_label"][i % 2])
        np.random.seed(4321 + i)
        b = gs.bootstrap_sample(cfg)
        res = gs.bootstrap_metric("group_fpr", config=cfg, threshold=np.array([0.4, 0.9]))
        ci = gs.bootstrap_ci("group_fnr", config=cfg, threshold=np.array([0.4]))
        h = hashlib.blake2b(digest_size=8)
        for a_ in (b.pos, b.neg, res, ci):
            h.update(np.ascontiguousarray(np.nan_to_num(np.asarray(a_, dtype=float), nan=-7.0)).tobytes())
        h.update("|".join(str(g) for g in b.pos_groups).encode())
        out.append(h.hexdigest())
    return out


def scenarios(ctx):
    yield {"hashseed_children": [1, 77] if ctx.tier == "quick" else [1, 77, 4242], "n": 12 if ctx.tier == "quick" else 40, "_seed": int(ctx.rng.integers(1 << 30)),
           "pos": np.zeros(0), "neg": np.zeros(0)}


def _hashseed_check(ctx, case):
    import json
    import os
    import subprocess
    import sys

    from .. import runner

    sess = ctx.sess
    mine = digest_cases(case["_seed"], case["n"])
    sess.observe("R-hashseed")
    for hs in case["hashseed_children"]:
        code = ("import sys, json, warnings; warnings.simplefilter('ignore'); sys.path[:0] = [%r, %r]; from vmon.props import C14; "
                "print('DIGESTS' + json.dumps(C14.digest_cases(%d, %d)))") % (runner.REPO, runner.VERIF_ROOT, case["_seed"], case["n"])
        env = dict(os.environ, PYTHONHASHSEED=str(hs))
        r = subprocess.run([sys.executable, "-B", "-c", code], capture_output=True, text=True, env=env, timeout=600)
        line = next((ln for ln in r.stdout.splitlines() if ln.startswith("DIGESTS")), None)
        if r.returncode != 0 or line is None:
            raise RuntimeError(f"hash-seed child failed: {r.stderr[-400:]}")
        theirs = json.loads(line[len("DIGESTS"):])
        diff = [i for i, (a, b) in enumerate(zip(mine, theirs)) if a != b]
        sess.check("R-hashseed", not diff and len(mine) == len(theirs),
                   "bootstrap results under a fixed global seed differ between interpreter processes (PYTHONHASHSEED)",
                   {"hashseed_parent": os.environ.get("PYTHONHASHSEED"), "hashseed_child": hs, "differing_cases": diff[:10], "nb_cases": len(mine)},
                   sig=("hashseed", hs), key="boot-hashseed")
    return True


def install(ctx):
    monitors.install_bs(ctx.sess, facets=(), keep=True)
    monitors.install_bci(ctx.sess, keep=True)


def cases(ctx):
    rng = ctx.rng
    for i in range(ctx.n(420, 1500)):
        big = rng.random() < 0.1
        pos, neg, kind = gen.scores(rng, min_pos=2, min_neg=2, maxn=30, kinds=["gauss", "lattice", "uniform01", "pool5", "perm", "intdtype"], big=big)
        ep, en = gen.easy(rng, cap=50)
        sc, ec = gen.cfg(rng)
        sampler = SAMPLERS[int(rng.integers(0, len(SAMPLERS)))]
        grouped = bool(rng.random() < 0.25) and sampler[0] in ("replacement", "single_pass", "dynamic", "identity")
        if grouped and rng.random() < 0.35:
            # few scores over very few values, tied across groups: the same score multisets are drawn repeatedly while the
            # group labels attached to them differ from draw to draw
            pos, neg = rng.integers(0, 3, int(rng.integers(2, 7))).astype(float), rng.integers(0, 3, int(rng.integers(2, 7))).astype(float)
            kind = "tiny-discrete"
        if grouped and sampler[0] in ("replacement", "dynamic") and rng.random() < 0.5:
            sampler = (sampler[0], "by_group")  # only GroupScores knows this stratification (and resolves 'dynamic' differently)
            if rng.random() < 0.5:
                pos, neg = rng.normal(1, 1, int(rng.integers(100, 140))), rng.normal(-1, 1, int(rng.integers(100, 140)))
                kind = "gauss-100+"
        bm = str(rng.choice(["quantile", "bc", "bca"]))
        alpha = float(rng.choice([0.05, 0.1, 0.4]))
        if bm == "quantile" and rng.random() < 0.4:  # several significance levels at once (documented for the quantile method): shape Y+A+(2,)
            alpha = rng.uniform(0.01, 0.9, tuple(int(x) for x in rng.integers(1, 4, int(rng.integers(1, 3)))))
        yield {"pos": pos, "neg": neg, "ep": 0 if grouped else ep, "en": 0 if grouped else en, "sc": sc, "ec": ec, "kind": kind, "sampler": list(sampler),
               "metric": "group_fnr" if grouped else str(rng.choice(METRICS)), "grouped": grouped, "nb_samples": int(rng.choice([1, 3, 7, 20])),
               "bm": bm, "alpha": alpha, "thr": rng.normal(0, 1, int(rng.integers(1, 4))),
               "_seed": int(rng.integers(1 << 31))}


def execute(ctx, case):
    from score_analysis import BootstrapConfig, GroupScores, Scores

    sess = ctx.sess
    if "hashseed_children" in case:
        return _hashseed_check(ctx, case)
    pos, neg, sc, ec = case["pos"], case["neg"], case["sc"], case["ec"]
    th = case["thr"]
    rng = np.random.default_rng(case["_seed"])
    if case["grouped"]:
        s = GroupScores(pos, neg, pos_groups=rng.choice(["a", "b"], len(pos)), neg_groups=rng.choice(["a", "b"], len(neg)), score_class=sc, equal_class=ec)
    else:
        cls = Scores
        if case["_seed"] % 4 == 0:
            # a user-defined subclass that overrides a metric of the base class: names are resolved on the object's own class, also
            # for the samples (which the inherited sampler builds as plain Scores)
            class MarginScores(Scores):
                def fnr(self, threshold):
                    return 0.5 * Scores.fnr(self, threshold) + 0.25

                def tar(self, threshold):
                    return 0.5 * Scores.tpr(self, threshold)

            cls = MarginScores
        s = cls(pos, neg, nb_easy_pos=case["ep"], nb_easy_neg=case["en"], score_class=sc, equal_class=ec)
    mname = case["metric"]
    seen_kwargs = []
    if mname == "fnr":
        metric, kw, fn = "fnr", {"threshold": th}, lambda x: type(s).fnr(x, th)
    elif mname == "tpr_alias":
        metric, kw, fn = "tar", {"threshold": th}, lambda x: type(s).tar(x, th)
    elif mname == "eer":
        metric, kw, fn = "eer", {}, lambda x: np.asarray(x.eer())
    elif mname == "thr":
        metric, kw, fn = "threshold_at_fpr", {"fpr": 0.2, "method": "lower"}, lambda x: np.asarray(x.threshold_at_fpr(0.2, method="lower"))
    elif mname == "auc":
        metric, kw, fn = "auc", {"lower": 0.1, "upper": 0.7}, lambda x: np.asarray(x.auc(0.1, 0.7))
    elif mname == "cm_int":
        def metric(x, threshold):
            return x.cm(threshold).matrix
        kw, fn = {"threshold": th}, lambda x: x.cm(th).matrix
    elif mname == "vec_callable":
        def metric(x, threshold, scale=1.0):
            seen_kwargs.append(scale)
            return scale * np.stack([x.fnr(threshold), x.fpr(threshold)])
        kw, fn = {"threshold": th, "scale": 3.0}, lambda x: 3.0 * np.stack([x.fnr(th), x.fpr(th)])
    elif mname == "scalar_callable":
        def metric(x):
            return float(len(x.pos)) / max(len(x.neg), 1)
        kw, fn = {}, lambda x: np.asarray(float(len(x.pos)) / max(len(x.neg), 1))
    elif mname == "uint_callable":  # an integer-valued metric in a narrow unsigned type (a quantised score at a given rank): replicates and estimate are uint8
        def _q8(v):
            return int(np.clip(np.round(float(v) * 12.0 + 128.0), 0, 255))

        def metric(x):
            return np.array([_q8(np.median(np.asarray(x.pos, dtype=float))), _q8(np.asarray(x.neg, dtype=float).max()), _q8(np.asarray(x.pos, dtype=float).min())], dtype=np.uint8)
        kw, fn = {}, metric
    elif mname == "tiny_callable":  # a metric expressed in small units (rates per billion): ties with the estimate are exact ties, not "close" values
        def metric(x, threshold):
            return 1e-9 * np.stack([x.fnr(threshold), x.fpr(threshold)])
        kw, fn = {"threshold": th}, lambda x: metric(x, th)
    elif mname == "rng_callable":  # a metric that consumes the global RNG (like a nested bootstrap): draws and evaluations interleave
        def metric(x, threshold):
            return x.fnr(threshold) + 0.0 * np.random.random()
        kw, fn = {"threshold": th}, lambda x: metric(x, th)
    elif mname == "partly_nan":  # undefined on some resamples (like a group-wise rate of a small group): NaN replicates reach the CI formula
        q = float(np.quantile(np.asarray(pos, dtype=float), 0.3))

        def metric(x, threshold):
            v = np.stack([x.fnr(threshold), x.fpr(threshold)])
            return v if float(x.pos[0]) > q or x is s else np.full_like(v, np.nan)
        kw, fn = {"threshold": th}, lambda x: metric(x, th)
    else:  # group_fnr resolved on type(self)
        metric, kw, fn = "group_fnr", {"threshold": th}, lambda x: x.group_fnr(th)
    kind, strat = case["sampler"]
    made = []
    received = []

    reuse = bool(case["_seed"] % 2 == 0 and not case["grouped"])  # the sampler hands out one re-used object whose arrays it replaces per call
    buffer = []
    rows_at_production = []

    def custom(src):
        received.append(src)
        k = len(made)
        r = np.random.default_rng(1000 + k)
        if hasattr(src, "pos_groups"):
            smp = src
        elif reuse:
            if not buffer:
                buffer.append(Scores(src.pos, src.neg, nb_easy_pos=src.nb_easy_pos, nb_easy_neg=src.nb_easy_neg, score_class=src.score_class, equal_class=src.equal_class))
            smp = buffer[0]
            smp.pos, smp.neg = np.sort(r.choice(src.pos, len(src.pos))), np.sort(r.choice(src.neg, len(src.neg)))
            with monitors.oracle_scope_ctx():
                rows_at_production.append(np.array(fn(smp), copy=True))  # what the j-th sample is worth while it is the j-th sample
        else:
            smp = Scores(r.choice(src.pos, len(src.pos)), r.choice(src.neg, len(src.neg)), nb_easy_pos=src.nb_easy_pos, nb_easy_neg=src.nb_easy_neg,
                         score_class=src.score_class, equal_class=src.equal_class)
        made.append(smp)
        return smp

    sm = custom if kind == "custom" else (lambda x: x) if kind == "identity" else kind
    S_ = case["nb_samples"]
    cfg = BootstrapConfig(nb_samples=S_, bootstrap_method=case["bm"], sampling_method=sm, stratified_sampling=strat, ratio=0.5 if kind == "proportion" else None)
    sig = (type(s).__name__, mname, kind, strat, case["bm"], "S%d" % S_)
    w = lambda **kw_: (lambda: dict({"pos": pos, "neg": neg, "cfg": [sc, ec], "metric": mname, "sampler": case["sampler"], "nb_samples": S_, "bootstrap_method": case["bm"]}, **kw_))  # noqa: E731
    sess.observe("R-boot")
    C = lambda ok, what, key, **kw_: sess.check("R-boot", bool(ok), what, w(**kw_), sig=sig, key=key)  # noqa: E731
    with monitors.oracle_scope_ctx():
        point = np.asarray(fn(s))

    # ---- bootstrap_metric ------------------------------------------------------------------------------
    np.random.seed(case["_seed"])
    sess.bs_log.clear()
    made.clear()
    received.clear()
    res = s.bootstrap_metric(metric, config=cfg, **kw)
    samples = [b for (src, c_, b) in sess.bs_log if src is s]
    C(res.shape == (S_,) + point.shape, "bootstrap_metric does not have nb_samples rows of the metric's shape", "boot-shape", got=res.shape, metric_shape=point.shape)
    C(len(samples) == S_, "number of samples drawn differs from nb_samples", "boot-nb-samples", drawn=len(samples))
    used_cfgs = [c_ for (src, c_, b) in sess.bs_log if src is s]
    C(all(c_ == cfg for c_ in used_cfgs), "samples were drawn with a configuration other than the one given", "boot-config", used=[str(c_) for c_ in used_cfgs[:2]])
    if len(samples) == S_ and res.shape == (S_,) + point.shape:
        with monitors.oracle_scope_ctx():
            rows = [np.asarray(fn(b)) for b in samples]
        if kind == "custom" and reuse and len(rows_at_production) >= S_:
            rows = rows_at_production[:S_]
        bad = next((j for j in range(S_) if not np.array_equal(res[j], rows[j], equal_nan=True)), None)
        C(bad is None, "row j of bootstrap_metric is not the metric evaluated on the j-th sample drawn", "boot-row", row=bad)
    if kind == "custom":
        C(len(made) == S_ and all(a is b for a, b in zip(made, samples)) and all(r_ is s for r_ in received), "custom sampler: samples used are not the sampler's products in order / sampler did not receive the source", "boot-custom")
    if mname == "vec_callable":
        C(len(seen_kwargs) == S_ + 1 and all(v == 3.0 for v in seen_kwargs), "keyword arguments were not forwarded to the metric on every call", "boot-kwargs", seen=seen_kwargs)

    # ---- bootstrap_ci ----------------------------------------------------------------------------------------
    np.random.seed(case["_seed"])
    sess.bs_log.clear()
    sess.bci_log.clear()
    made.clear()
    rows_at_production.clear()
    ci = s.bootstrap_ci(metric, alpha=case["alpha"], config=cfg, **kw)
    samples2 = [b for (src, c_, b) in sess.bs_log if src is s]
    C(len(sess.bci_log) == 1, "bootstrap_ci did not go through the CI formula exactly once", "boot-ci-calls", calls=len(sess.bci_log))
    if len(sess.bci_log) == 1 and len(samples2) == S_:
        call = sess.bci_log[0]
        with monitors.oracle_scope_ctx():
            reps = np.stack([np.asarray(fn(b)) for b in samples2], axis=0)
        if kind == "custom" and reuse and len(rows_at_production) >= S_:
            reps = np.stack(rows_at_production[:S_], axis=0)
        C(np.shape(call["theta"]) == reps.shape and np.array_equal(np.asarray(call["theta"]), reps, equal_nan=True), "replicates handed to the CI formula are not the metric on the samples drawn", "boot-ci-theta")
        C(np.array_equal(np.asarray(call["theta_hat"]), point, equal_nan=True), "point estimate handed to the CI formula is not the metric of the original object", "boot-ci-estimate",
          got=np.asarray(call["theta_hat"]), expected=point)
        C(np.array_equal(np.asarray(call["alpha"]), np.asarray(case["alpha"])) and call["method"] == case["bm"], "alpha/method handed to the CI formula are not those requested", "boot-ci-params")
        C(np.array_equal(np.asarray(ci), np.asarray(call["result"]), equal_nan=True), "bootstrap_ci does not return the CI formula's result", "boot-ci-result")
        C(np.shape(ci) == point.shape + np.shape(case["alpha"]) + (2,), "bootstrap_ci shape is not metric_shape+alpha_shape+(2,)", "boot-ci-shape", got=np.shape(ci))
    if kind == "identity" and not np.isnan(point.astype(float)).any():
        ashape = np.shape(case["alpha"])
        collapsed = np.broadcast_to(point.astype(float).reshape(point.shape + (1,) * (len(ashape) + 1)), point.shape + ashape + (2,))
        C(np.array_equal(np.asarray(ci, dtype=float), collapsed), "identity sampler: limits do not collapse onto the point estimate", "boot-identity", ci=ci, point=point)
    # ---- reproducibility ----------------------------------------------------------------------------------------
    if kind not in ("custom",):
        # "row j is the metric on the j-th sample produced by the configured sampler": the same seed fed to the sampler directly
        np.random.seed(case["_seed"])
        with monitors.oracle_scope_ctx():
            if mname == "rng_callable":
                fn(s)  # the point estimate is evaluated first and consumes its share of the stream
            direct = [np.asarray(fn(s.bootstrap_sample(cfg))) for _ in range(S_)]
        C(res.shape == (S_,) + point.shape and all(np.array_equal(res[j], direct[j], equal_nan=True) for j in range(S_)),
          "bootstrap_metric under a seed differs from the metric on successive bootstrap_sample(config) calls under the same seed", "boot-direct-sampler")
        np.random.seed(case["_seed"])
        res2 = s.bootstrap_metric(metric, config=cfg, **kw)
        C(np.array_equal(res, res2, equal_nan=True), "same global seed does not reproduce bootstrap_metric", "boot-repro")
        np.random.seed(case["_seed"])
        ci2 = s.bootstrap_ci(metric, alpha=case["alpha"], config=cfg, **kw)
        C(np.array_equal(np.asarray(ci), np.asarray(ci2), equal_nan=True), "same global seed does not reproduce bootstrap_ci", "boot-repro-ci")
        if kind not in ("identity",) and len(s.pos) + len(s.neg) >= 20 and S_ >= 3 and mname in ("fnr", "vec_callable", "cm_int", "group_fnr"):
            np.random.seed(case["_seed"] + 1)
            sess.bs_log.clear()
            s.bootstrap_metric(metric, config=cfg, **kw)
            other = [b for (src, c_, b) in sess.bs_log if src is s]
            same = len(other) == len(samples) and all(np.array_equal(a.pos, b.pos) and np.array_equal(a.neg, b.neg) for a, b in zip(samples, other))
            C(not same, "a different seed produced identical bootstrap samples", "boot-seed-sensitive")
    # ---- documented defaults ------------------------------------------------------------------------------------
    if case["_seed"] % 24 == 3 and mname in ("fnr", "tpr_alias", "thr", "vec_callable", "scalar_callable") and len(pos) + len(neg) <= 60:
        # leaving alpha / config out means alpha=0.05 and BootstrapConfig(1000, "bca", "dynamic", None, False, None), as documented
        explicit = BootstrapConfig(nb_samples=1000, bootstrap_method="bca", sampling_method="dynamic", stratified_sampling=None, smoothing=False, ratio=None)
        C(BootstrapConfig() == explicit, "BootstrapConfig() is not the documented default configuration", "boot-default-config", got=str(BootstrapConfig()))
        np.random.seed(case["_seed"])
        d_omit = s.bootstrap_ci(metric, **kw)
        np.random.seed(case["_seed"])
        d_expl = s.bootstrap_ci(metric, alpha=0.05, config=explicit, **kw)
        C(np.array_equal(np.asarray(d_omit), np.asarray(d_expl), equal_nan=True), "bootstrap_ci with alpha/config left out differs from the documented defaults spelled out", "boot-default-ci")
        np.random.seed(case["_seed"])
        b_omit = s.bootstrap_sample()
        np.random.seed(case["_seed"])
        b_expl = s.bootstrap_sample(explicit)
        C(np.array_equal(b_omit.pos, b_expl.pos) and np.array_equal(b_omit.neg, b_expl.neg) and b_omit.nb_easy_pos == b_expl.nb_easy_pos and b_omit.nb_easy_neg == b_expl.nb_easy_neg,
          "bootstrap_sample() without a configuration differs from the documented default configuration", "boot-default-sample")
    sess.bs_log.clear()
    sess.bci_log.clear()
    sess.sig_counts[("case",) + sig] += 1
    return True
