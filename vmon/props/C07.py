"""C07 — AUC equals the Mann-Whitney statistic; partial AUC is the exact step-ROC area."""

from __future__ import annotations

import numpy as np

from .. import derive, gen, monitors

PID = "C07"
ANCHORS = ["scores.py:Scores.auc"]
RAISES_ARE_VIOLATIONS = True
DECIDING = {"M-auc": 11636, "R-auc": 1725}
THOROUGH_EXTRA = ["W2"]
RULE = (
    "Every Scores.auc call is observed by M-auc. Full range: exact Fraction count (wins + ties/2)/(P*N), easy samples ranked beyond "
    "everything, for axes (fpr,tpr), and 1-A for (tpr,fpr)/(fpr,fnr), A for (tnr,tpr); any ties. Partial range, no cross-class ties: "
    "exact Fraction area under the empirical step ROC over [lower,upper] (hence <= upper-lower), (upper-lower)-area for y=fnr, mirrored "
    "interval for x=tnr; tolerance 1e-9. Relations R-auc per case: additivity over a random split, independence of equal_class, "
    "alias axes (far/tar) identical. W1: <=14 scores per class (Fractions are O(P*N)), classes: permutations, Gaussian, within-class "
    "ties without cross ties, lattices with cross ties (full AUC), single-sample classes; easy counts; 4 cfg; cuts on/off the k/N grid, "
    "within 1/N of 0 and 1, lower == upper. Non-trivial: P*N >= 2 and the AUC is not 0 or 1 or the interval is partial; distinct = hash of inputs."
    ' Build-phase additions: FNR-over-FPR areas judged relative to their own size against the exact rational area; classes of easy samples only; two large sets per run (66-72 thousand samples, ties centred on power-of-two ranks) against the Mann-Whitney statistic counted by binary search.'
)
ASSUMPTIONS = ["finite scores", "0 <= lower <= upper <= 1", "partial AUC only without values shared between classes (as the property states)"]


def install(ctx):
    monitors.install_auc(ctx.sess)


def cases(ctx):
    rng = ctx.rng
    for i in range(ctx.n(2000, 8000)):
        npos = int(rng.integers(1, 15))
        nneg = int(rng.integers(1, 15))
        kind = str(rng.choice(["perm", "gauss", "within_ties", "lattice", "pool5", "separated", "inverted", "ulp", "ulp_cross", "uint", "mixed_int_float", "float32"]))
        if kind == "perm":
            allv = rng.permutation(npos + nneg).astype(float)
            pos, neg = allv[:npos], allv[npos:]
        elif kind == "gauss":
            pos, neg = rng.normal(0.5, 1, npos), rng.normal(-0.5, 1, nneg)
        elif kind == "within_ties":
            vals = rng.permutation(8).astype(float)
            pos, neg = rng.choice(vals[:4], npos), rng.choice(vals[4:], nneg)
        elif kind in ("lattice", "pool5", "ulp", "uint", "mixed_int_float", "float32"):
            pos, neg, _ = gen.scores(rng, 1, 1, maxn=14, kinds=[kind])
        elif kind == "ulp_cross":  # distinct values, neighbours one ulp apart, classes interleaved (no shared value)
            c = float(rng.choice([1.0, 0.1, -2.5, 3.0, 1024.0]))
            ladder = [c]
            for _ in range(npos + nneg):
                ladder.append(float(np.nextafter(ladder[-1], np.inf)))
            lad = np.array(ladder)[rng.permutation(npos + nneg)]
            pos, neg = lad[:npos], lad[npos:]
        else:
            allv = np.sort(rng.normal(0, 1, npos + nneg))
            pos, neg = (allv[nneg:], allv[:nneg]) if kind == "separated" else (allv[:npos], allv[npos:])
        if i in (11, 901):
            # a large evaluation set (tens of thousands of scored samples) with small tie groups centred on the power-of-two ranks - where code
            # that walks the pooled scores in blocks would have its seams; judged by M-auc against the exactly counted Mann-Whitney statistic
            n_big = int(rng.integers(66000, 72000))
            vals = np.cumsum(rng.uniform(0.5, 1.5, n_big)).round(3)
            for k_ in range(8, 17):
                r_ = 2 ** k_
                m_ = int(rng.choice([2, 4, 6]))
                vals[r_ - m_ // 2: r_ + m_ // 2] = vals[r_]
            lab_ = rng.random(n_big) < float(rng.uniform(0.3, 0.7))
            pos, neg, kind = vals[lab_] * 1e-3, vals[~lab_] * 1e-3, "large-pow2ties"
        ep, en = gen.easy(rng)
        sc, ec = gen.cfg(rng)
        if i % 17 == 4:
            # a class whose samples are all easy (no scored sample of it): it is not empty, and its samples still rank beyond every scored one
            if rng.random() < 0.5:
                pos, ep = pos[:0], int(rng.choice([1, 3, 40, max(ep, 1)]))
            else:
                neg, en = neg[:0], int(rng.choice([1, 3, 40, max(en, 1)]))
            kind = kind + "+easyonly"
        N = len(neg) + en
        cands = [0.0, 1.0, float(rng.uniform()), float(rng.uniform()), float(rng.integers(0, N + 1)) / N, float(rng.integers(0, N + 1)) / N,
                 float(rng.uniform(0, 1.0 / N)), 1.0 - float(rng.uniform(0, 1.0 / N))]
        lo, up = sorted(float(x) for x in rng.choice(cands, 2))
        if rng.random() < 0.05:
            up = lo
        yield {"pos": pos, "neg": neg, "ep": ep, "en": en, "sc": sc, "ec": ec, "kind": kind, "lower": lo, "upper": up, "mid_u": float(rng.uniform()),
               "via": "ctor" if kind.startswith("large") else str(rng.choice(derive.VIAS)), "_seed": int(rng.integers(1 << 31))}


def execute(ctx, case):
    from score_analysis import Scores

    sess = ctx.sess
    pos, neg, ep, en, sc, ec = case["pos"], case["neg"], case["ep"], case["en"], case["sc"], case["ec"]
    lo, up = case["lower"], case["upper"]
    with monitors.oracle_scope_ctx():
        s = derive.build(pos, neg, ep, en, sc, ec, case.get("via", "ctor"), case.get("_seed", 0))
    # relations are about the object under test: a derived object (bootstrap sample, swap of a sample) has its own content
    pos, neg, ep, en = np.asarray(s.pos), np.asarray(s.neg), int(s.nb_easy_pos), int(s.nb_easy_neg)
    sc, ec = monitors.cfg_of(s)
    a_full = s.auc()  # all judged by M-auc
    a = s.auc(lo, up)
    s.auc(lo, up, y_axis="fnr")
    s.auc(1.0 - up, 1.0 - lo, x_axis="tnr")
    s.auc(x_axis="tpr", y_axis="fpr")
    s.auc(lower=lo, upper=up, x_axis="far", y_axis="tar")
    xties = bool(set(np.asarray(pos).tolist()) & set(np.asarray(neg).tolist()))
    sig = (sc, ec, case["kind"], ep > 0, en > 0)
    sess.observe("R-auc")
    other = Scores(pos, neg, nb_easy_pos=ep, nb_easy_neg=en, score_class=sc, equal_class="neg" if ec == "pos" else "pos")
    sess.check("R-auc", abs(other.auc() - a_full) <= 1e-9, "full AUC depends on equal_class",
               lambda: {"pos": pos, "neg": neg, "easy": [ep, en], "cfg": [sc, ec], "auc": a_full, "auc_other_equal_class": other.auc()}, sig=sig, key="auc-equal-class")
    if not xties:
        mid = lo + (up - lo) * case["mid_u"]
        parts = s.auc(lo, mid) + s.auc(mid, up)
        sess.check("R-auc", abs(parts - a) <= 1e-9, "partial AUC not additive over adjacent intervals",
                   lambda: {"pos": pos, "neg": neg, "easy": [ep, en], "cfg": [sc, ec], "lower": lo, "mid": mid, "upper": up, "whole": a, "parts": parts}, sig=sig, key="auc-additive")
    sess.sig_counts[("case",) + sig + ("xties" if xties else "-", "degenerate" if lo == up else "full" if (lo, up) == (0.0, 1.0) else "partial")] += 1
    return bool(len(pos) * len(neg) >= 2 and (0.0 < a_full < 1.0 or (lo, up) != (0.0, 1.0)))
