"""C06 — EER is a crossing point: FPR and FNR at its threshold agree with the EER."""

from __future__ import annotations

import numpy as np

from .. import derive, gen, monitors

PID = "C06"
ANCHORS = ["scores.py:Scores.eer", "scores.py:Scores._find_root", "scores.py:Scores.eer.<locals>.f"]
DECIDING = {"M-eer": 6407, "R-eer-equiv": 925}
THOROUGH_EXTRA = ["W2", "W3"]
RULE = (
    "Every Scores.eer() call is observed by M-eer, which evaluates FPR/FNR (same object) at the returned threshold. Tie-free inputs: "
    "0<=e<=1, |FPR(t)-e| <= 1/N_neg_all (+1e-9 for the bisection's xtol), |FNR(t)-e| <= 1/N_pos_all, e <= min(hard fractions). Any input: "
    "e == 0 implies FPR(t) == FNR(t) == 0. Relation R-eer-equiv (tie-free): negated scores with flipped score_class give (-t, e); a*s+b "
    "(a>0) gives (a*t+b, e). W1 classes: permutations of distinct integers, Gaussian, perfectly separated, perfectly inverted, one-sample "
    "classes, easy counts, 4 cfg; for the zero clause also lattices with ties, touching classes (min pos == max neg) and classes one ulp apart. "
    "Non-trivial: both classes non-empty (always) and not (separated with e==0 by the shortcut) or a zero-clause case; distinct = hash of inputs."
    " Build-phase additions: up to 1e17 easy samples, outlier gaps, lopsided classes, huge/subnormal magnitudes gated by 'moderate magnitude'."
)
ASSUMPTIONS = ["crossing/equivariance clauses: finite scores of moderate magnitude (all non-zero |s| in [1e-150, 1e150]); zero-EER clause: all finite scores incl. 1.7e308 and subnormals", "FPR/FNR at a threshold are taken from the object's own rate methods (decided by C01)"]
FLIP = {"pos": "neg", "neg": "pos"}


def install(ctx):
    monitors.install_eer(ctx.sess)


def cases(ctx):
    rng = ctx.rng
    for i in range(ctx.n(1400, 5000)):
        mode = str(rng.choice(["perm", "gauss", "separated", "inverted", "ties", "touching", "ulp", "tiny", "uint", "int8wide", "mixed", "huge", "huge", "subnormal", "negzero", "clustered", "clustered", "manyeasy", "manyeasy", "manyeasy", "lopsided", "lopsided"]))
        npos = int(rng.integers(1, 26))
        nneg = int(rng.integers(1, 26))
        if mode == "tiny":
            npos, nneg = int(rng.integers(1, 3)), int(rng.integers(1, 3))
            mode2 = "perm"
        else:
            mode2 = mode
        if mode2 == "lopsided":
            # a dense class against a sparse one with very uneven gaps (heavy tails): the rate grids of the two classes do not nest
            nd, ns = int(rng.integers(40, 160)), int(rng.integers(3, 12))
            dense = rng.normal(0.0, 1.0, nd)
            sparse = np.concatenate([rng.standard_cauchy(ns - 1) * float(rng.choice([1.0, 10.0, 100.0])), [float(rng.normal(0, 1))]])
            pos, neg = (dense, sparse) if rng.random() < 0.5 else (sparse, dense)
            mode2 = "_done"
        if mode2 == "manyeasy":
            npos, nneg = int(rng.integers(1, 12)), int(rng.integers(1, 12))
            mode2 = str(rng.choice(["perm", "gauss", "inverted", "inverted"]))
        if mode2 == "perm":
            allv = rng.permutation(npos + nneg).astype(float)
            pos, neg = allv[:npos], allv[npos:]
        elif mode2 == "gauss":
            pos, neg = rng.normal(0.5, 1, npos), rng.normal(-0.5, 1, nneg)
        elif mode2 in ("separated", "inverted"):
            allv = np.sort(rng.normal(0, 1, npos + nneg))
            if mode2 == "separated":
                neg, pos = allv[:nneg], allv[nneg:]
            else:
                pos, neg = allv[:npos], allv[npos:]
        elif mode2 == "ties":
            pos, neg, _ = gen.scores(rng, 1, 1, maxn=12, kinds=["lattice", "pool5", "intdtype", "scaled"])
        elif mode2 in ("uint", "int8wide", "mixed", "huge", "subnormal", "negzero", "clustered"):
            pos, neg, _ = gen.scores(rng, 1, 1, maxn=20, kinds=[{"mixed": "mixed_int_float"}.get(mode2, mode2)])
        elif mode2 == "touching":
            pos, neg, _ = gen.scores(rng, 1, 1, maxn=12, kinds=["touching"])
        elif mode2 == "ulp":  # classes one ulp apart
            base = float(rng.choice([1.0, 3.0, 0.1, 2.5, -1.0, 1e-3, 1024.0]))
            lo, hi = base, float(np.nextafter(base, np.inf))
            k1, k2 = int(rng.integers(0, 3)), int(rng.integers(0, 3))
            low = np.concatenate([[lo], lo - 1.0 - rng.uniform(0, 1, k1)])
            high = np.concatenate([[hi], hi + 1.0 + rng.uniform(0, 1, k2)])
            pos, neg = (high, low) if rng.random() < 0.5 else (low, high)
        if mode == "manyeasy" and rng.random() < 0.6:
            # an outlier (a saturated score): one score gap is 1e4..1e6 times the others, so the threshold is steep in the rate there
            pos, neg = np.asarray(pos, dtype=float).copy(), np.asarray(neg, dtype=float).copy()
            span_ = float(np.ptp(np.concatenate([pos, neg]))) or 1.0
            arr = pos if rng.random() < 0.5 else neg
            arr[int(rng.integers(0, len(arr)))] = float(rng.choice([-1.0, 1.0])) * span_ * float(rng.choice([1e4, 1e5, 1e6]))
        if i % 19 == 8:
            # single/half-precision scores packed on adjacent representable values (a saturating float16/float32 model output): tie-free, but an
            # interpolated threshold has no room between two scores in that precision
            dt_ = np.float32 if rng.random() < 0.6 else np.float16
            n_ = int(rng.integers(6, 40))
            base_ = dt_(rng.choice([1.0, 0.5, 2.0]))
            lad_ = [base_]
            for _ in range(n_ - 1):
                lad_.append(np.nextafter(lad_[-1], dt_(np.inf)))
            lad_ = np.array(lad_, dtype=dt_)[rng.permutation(n_)]
            k_ = int(rng.integers(1, n_))
            pos, neg, mode = lad_[:k_], lad_[k_:], "lowprec-adjacent"
        ep, en = gen.easy(rng)
        if mode == "manyeasy":  # a handful of hard scores beside up to billions of easy ones: one sample is 1e-10 of the rate scale
            ep, en = (int(x) for x in rng.choice([0, 10 ** 8, 10 ** 9, 3 * 10 ** 9, 10 ** 10, 10 ** 11, 10 ** 12, 10 ** 15, 10 ** 16, 10 ** 17], 2))
            if ep == 0 and en == 0:
                en = 3 * 10 ** 9
        sc, ec = gen.cfg(rng)
        a = float(rng.choice([0.5, 2.0, 1.0, float(rng.uniform(0.1, 10))]))
        b = float(rng.choice([0.0, 1.0, float(rng.normal(0, 5))]))
        yield {"pos": pos, "neg": neg, "ep": ep, "en": en, "sc": sc, "ec": ec, "mode": mode, "a": a, "b": b,
               "via": str(rng.choice(derive.VIAS)), "_seed": int(rng.integers(1 << 31))}


def scenarios(ctx):
    rng = ctx.rng
    for i in range(ctx.n(6, 12)):
        pos, neg, kind = gen.scores(rng, min_pos=5, min_neg=5, maxn=60, kinds=["gauss", "uniform01", "perm"])
        yield {"pos": pos, "neg": neg, "ep": 0, "en": 0, "sc": "pos", "ec": "pos", "mode": "bootstrap", "a": 1.0, "b": 0.0,
               "_seed": int(rng.integers(1 << 31))}


def execute(ctx, case):
    from score_analysis import BootstrapConfig, Scores

    sess = ctx.sess
    pos = np.asarray(case["pos"])
    neg = np.asarray(case["neg"])
    ep, en, sc, ec = case["ep"], case["en"], case["sc"], case["ec"]
    if case["mode"] == "bootstrap":
        s = Scores(pos, neg, nb_easy_pos=ep, nb_easy_neg=en, score_class=sc, equal_class=ec)
    else:
        with monitors.oracle_scope_ctx():
            s = derive.build(pos, neg, ep, en, sc, ec, case.get("via", "ctor"), case.get("_seed", 0))
        # relations are about the object under test: a derived object (bootstrap sample, swap of a sample) has its own content
        pos, neg, ep, en = np.asarray(s.pos), np.asarray(s.neg), int(s.nb_easy_pos), int(s.nb_easy_neg)
        sc, ec = monitors.cfg_of(s)
    if case["mode"] == "bootstrap":
        np.random.seed(case["_seed"])
        s.bootstrap_ci("eer", config=BootstrapConfig(nb_samples=12, bootstrap_method="quantile"))  # 12 eer() calls on resamples (ties!)
        return True
    moderate = monitors.moderate_magnitude(s)  # the crossing and equivariance clauses are claimed for moderate magnitudes only
    try:
        t, e = s.eer()  # judged by M-eer
    except Exception:
        if moderate:
            raise
        sess.skip("R-eer-equiv", "eer() raised on scores near the float range limits (outside the claimed magnitudes)")
        return False
    tf = monitors.tie_free(s)
    posf, negf = pos.astype(float), neg.astype(float)
    allv = np.sort(np.concatenate([posf, negf]))
    # Equivariance is judged where it is well-posed: scores separated by more than the resolution at which thresholds are
    # compared (C02: "a few ulp"). Adjacent floats behave like a tie block: interpolation between them cannot be represented,
    # so the crossing found depends on rounding (the crossing clauses of M-eer still hold there and are still judged).
    well_separated = len(allv) < 2 or float(np.diff(allv).min()) > 1e-6 * max(1.0, float(np.abs(allv).max()))
    if tf and not (well_separated and moderate):
        sess.skip("R-eer-equiv", "scores closer than the threshold resolution, or of extreme magnitude")
    if tf and well_separated and moderate:
        span = max(1.0, float(np.ptp(allv)), float(np.abs(allv).max()))
        # The EER comes from a bisection with xtol=1e-10 and the threshold is threshold_at_fpr(eer), whose slope in the
        # target is at most N_neg_all * (largest score gap): that much of the threshold is not determined by the input.
        span = span * (1.0 + 0.4 * s.nb_all_neg)
        ng = Scores(-posf, -negf, nb_easy_pos=ep, nb_easy_neg=en, score_class=FLIP[sc], equal_class=ec)
        t2, e2 = ng.eer()
        sess.observe("R-eer-equiv")
        sess.check("R-eer-equiv", monitors.close_thr(t2, -t, span) and abs(e - e2) <= 1e-8,
                   "EER not equivariant under negation + flipped score_class",
                   lambda: {"pos": posf, "neg": negf, "easy": [ep, en], "cfg": [sc, ec], "t": t, "e": e, "t_neg": t2, "e_neg": e2},
                   sig=(sc, ec, "neg"), key="eer-negation")
        a, b = case["a"], case["b"]
        af = Scores(a * posf + b, a * negf + b, nb_easy_pos=ep, nb_easy_neg=en, score_class=sc, equal_class=ec)
        if monitors.tie_free(af):
            t3, e3 = af.eer()
            sess.check("R-eer-equiv", monitors.close_thr(t3, a * t + b, span * max(a, 1.0) + abs(b)) and abs(e - e3) <= 1e-8,
                       "EER not equivariant under an increasing affine map",
                       lambda: {"pos": posf, "neg": negf, "easy": [ep, en], "cfg": [sc, ec], "a": a, "b": b, "t": t, "e": e, "t_aff": t3, "e_aff": e3},
                       sig=(sc, ec, "affine"), key="eer-affine")
    sess.sig_counts[("case", sc, ec, case["mode"], ep > 0, en > 0, "tiefree" if tf else "ties", "e0" if e == 0 else "e1" if e == 1 else "mid")] += 1
    return bool(tf or e == 0.0)
