"""C20 — synthetic datasets hit their specified operating points and proportions."""

from __future__ import annotations

import math

import numpy as np

from .. import monitors  # noqa: F401
from .. import refmodel as R

PID = "C20"
ANCHORS = ["experimental/datasets.py:NormalDataset.from_metrics", "experimental/datasets.py:NormalDataset.sample", "experimental/datasets.py:NormalDataset.roc",
           "experimental/datasets.py:NormalDataset.threshold_at_fnr", "experimental/datasets.py:NormalDataset.threshold_at_fpr", "experimental/datasets.py:NormalDataset.fnr",
           "experimental/datasets.py:NormalDataset.fpr", "experimental/datasets.py:BernoulliDataset.sample", "experimental/datasets.py:CorrelatedBernoullilDataset.sample"]
DECIDING = {"R-data": 30000}
RULE = (
    "R-data per parameter set. NormalDataset: fnr(threshold_at_fnr(r)) == r and fpr(threshold_at_fpr(r)) == r (rtol 1e-9, r in (1e-6,1-1e-6)), "
    "threshold_at_*(rate(t)) == t where the rate is away from 0/1; both rates agree with an independent NormalDist reference; fnr increasing and "
    "fpr decreasing in the threshold; roc(fnr=)/roc(fpr=) return rates consistent with their thresholds and the requested rates, and raise "
    "ValueError for none/both; scalar in -> scalar out. from_metrics(fnr,fpr,fs,fps): fnr(0) == fnr, fpr(0) == fpr (1e-9), n*p_pos integer, "
    "fs - fnr < nb_pos*fnr <= fs and the same for negatives up to float accuracy, score_class 'pos'; sample() returns n scores split between the "
    "classes with the model's score_class, p_pos/n overrides honoured, same rng seed reproducible. BernoulliDataset(random=False): k = floor(n*p) "
    "successes up to float accuracy, values in {0,1}, length n; random=True: length n, 0/1. CorrelatedBernoullilDataset: rho 1e-6 inside the "
    "feasible interval -> shape (2,n), 0/1, marginal counts within 3 of n*p (non-random), joint counts = floor(n*p_joint) except the last cell; "
    "rho >= 1e-3 outside -> ValueError; the float boundary itself is not judged. Non-trivial: always; distinct = hash of the parameter set."
    ' Build-phase additions: dataset size from sample(n) / stored n / both, documented sigma defaults of from_metrics, large Bernoulli draws.'
)
ASSUMPTIONS = ["finite mu, sigma in [0.1, 5], rates in (1e-6, 1-1e-6), supports 1..60, n 1..300", "statistics.NormalDist as independent reference"]
from statistics import NormalDist  # noqa: E402


def install(ctx):
    pass


def cases(ctx):
    rng = ctx.rng
    for i in range(ctx.n(2000, 8000)):
        mu = rng.normal(0, 3, 2)
        if rng.random() < 0.25:  # special means: exactly zero (either sign), symmetric, equal
            mu = np.array([float(rng.choice([0.0, -0.0, 1.0, mu[0]])), float(rng.choice([0.0, -0.0, mu[1]]))])
        yield {"mu": mu, "sig": rng.uniform(0.1, 5, 2), "sc": str(rng.choice(["pos", "neg"])), "r": rng.uniform(1e-6, 1 - 1e-6, 5), "th": rng.normal(0, 4, 5),
               "fm": [float(rng.choice([0.01, 0.05, 0.1, 0.3, 0.29, 0.57, 0.5, 0.5, float(rng.uniform(0.001, 0.9))])) for _ in range(2)],
               "sup": [int(rng.integers(1, 60)), int(rng.integers(1, 60))], "sig2": rng.uniform(0.2, 3, 2),
               "p": float(rng.choice([0.0, 1.0, 0.29, 0.57, 0.1, 0.7, float(rng.uniform())])), "n": int(rng.integers(1, 300)),
               "p12": rng.uniform(0.02, 0.98, 2), "u": rng.uniform(0, 1, 4), "_seed": int(rng.integers(1 << 31))}


def execute(ctx, case):
    from score_analysis.experimental import BernoulliDataset, CorrelatedBernoullilDataset, NormalDataset

    sess = ctx.sess
    mu_p, mu_n = (float(x) for x in case["mu"])
    sp, sn = (float(x) for x in case["sig"])
    sc = case["sc"]
    sig = (sc,)
    w = lambda **kw: (lambda: dict({"mu_pos": mu_p, "mu_neg": mu_n, "sigma_pos": sp, "sigma_neg": sn, "score_class": sc}, **kw))  # noqa: E731
    sess.observe("R-data")
    C = lambda ok, what, key, **kw: sess.check("R-data", bool(ok), what, w(**kw), sig=sig, key=key)  # noqa: E731
    if case["_seed"] % 3 == 0:
        # a history on one object: built with other parameters, queried, then its public fields re-assigned (it is a plain mutable
        # dataclass): every analytic function must answer for the parameters the object now shows
        ds = NormalDataset(mu_pos=mu_p + 1.5, mu_neg=mu_n - 0.7, sigma_pos=sp * 2.0, sigma_neg=sn * 0.5, score_class=sc)
        ds.fnr(0.1), ds.fpr(0.1), ds.threshold_at_fnr(0.3), ds.threshold_at_fpr(0.3), ds.roc(fnr=[0.2, 0.4])
        ds.mu_pos, ds.mu_neg, ds.sigma_pos, ds.sigma_neg = mu_p, mu_n, sp, sn
    else:
        ds = NormalDataset(mu_pos=mu_p, mu_neg=mu_n, sigma_pos=sp, sigma_neg=sn, score_class=sc)
    C(ds.mu_pos == mu_p and ds.mu_neg == mu_n and ds.sigma_pos == sp and ds.sigma_neg == sn, "constructor does not keep the given parameters", "data-ctor", stored=[ds.mu_pos, ds.mu_neg])
    dflt = NormalDataset(mu_pos=mu_p)
    C(dflt.mu_neg == -mu_p and dflt.sigma_pos == 3.75 and dflt.sigma_neg == 3.0 and dflt.p_pos == 0.5, "defaulted mu_neg is not -mu_pos", "data-ctor-default")
    r = case["r"]
    t = ds.threshold_at_fnr(r)
    C(np.allclose(ds.fnr(t), r, rtol=1e-9, atol=1e-12), "fnr(threshold_at_fnr(r)) != r", "data-fnr-inverse", r=r, back=ds.fnr(t))
    t = ds.threshold_at_fpr(r)
    C(np.allclose(ds.fpr(t), r, rtol=1e-9, atol=1e-12), "fpr(threshold_at_fpr(r)) != r", "data-fpr-inverse", r=r, back=ds.fpr(t))
    th = np.sort(case["th"])
    Np, Nn = NormalDist(mu_p, sp), NormalDist(mu_n, sn)
    ref_fnr = np.array([Np.cdf(v) for v in th.tolist()])
    ref_fpr = np.array([1.0 - Nn.cdf(v) for v in th.tolist()])
    C(np.allclose(ds.fnr(th), ref_fnr, rtol=1e-7, atol=1e-12) and np.allclose(ds.fpr(th), ref_fpr, rtol=1e-6, atol=1e-9), "analytic rates differ from the normal-distribution reference", "data-rates",
      thresholds=th, fnr=ds.fnr(th), fpr=ds.fpr(th))
    C(np.all(np.diff(ds.fnr(th)) >= 0) and np.all(np.diff(ds.fpr(th)) <= 0), "fnr not increasing or fpr not decreasing in the threshold", "data-monotone")
    # the same analytic functions at thresholds handed over in other containers / narrower float types: the values are what counts
    for form in ("float32", "float16", "list", "np32scalar", "intarray"):
        if form == "float32":
            tq = th.astype(np.float32)
        elif form == "float16":
            tq = th.astype(np.float16)
        elif form == "list":
            tq = th.tolist()
        elif form == "np32scalar":
            tq = np.float32(th[len(th) // 2])
        else:
            tq = np.round(th).astype(np.int64)
        vals = np.atleast_1d(np.asarray(tq, dtype=float)).tolist()
        rf = np.array([Np.cdf(v) for v in vals])
        rp = np.array([1.0 - Nn.cdf(v) for v in vals])
        gf, gp = np.atleast_1d(np.asarray(ds.fnr(tq), dtype=float)), np.atleast_1d(np.asarray(ds.fpr(tq), dtype=float))
        C(np.allclose(gf, rf, rtol=1e-7, atol=1e-12) and np.allclose(gp, rp, rtol=1e-6, atol=1e-9), "analytic rates differ from the normal-distribution reference for thresholds given as " + form,
          "data-rates-form", thresholds=np.asarray(tq), fnr=gf, fpr=gp, form=form)
        okf = (rf > 1e-9) & (rf < 1 - 1e-9)
        back = np.atleast_1d(np.asarray(ds.threshold_at_fnr(ds.fnr(tq)), dtype=float))
        C(np.allclose(back[okf], np.asarray(vals)[okf], rtol=1e-6, atol=1e-6), "threshold_at_fnr(fnr(t)) != t for thresholds given as " + form, "data-thr-inverse-form", form=form, thresholds=np.asarray(tq), back=back)
    f = ds.fnr(th)
    ok = (f > 1e-9) & (f < 1 - 1e-9)
    C(np.allclose(np.asarray(ds.threshold_at_fnr(f))[ok], th[ok], rtol=1e-6, atol=1e-6), "threshold_at_fnr(fnr(t)) != t", "data-thr-inverse")
    C(isinstance(ds.fnr(0.3), float) and isinstance(ds.fpr(0.3), float) and isinstance(ds.threshold_at_fnr(0.3), float) and isinstance(ds.threshold_at_fpr(0.3), float), "scalar input does not give a scalar", "data-scalar")
    rc = ds.roc(fnr=r)
    C(len(rc.fnr) == len(rc.fpr) == len(rc.thresholds) == len(r) and np.allclose(rc.fnr, ds.fnr(rc.thresholds)) and np.allclose(rc.fpr, ds.fpr(rc.thresholds)) and np.allclose(rc.fnr, r, rtol=1e-9),
      "roc(fnr=) rates are inconsistent with its thresholds or the requested rates", "data-roc-fnr")
    rc = ds.roc(fpr=r)
    C(np.allclose(rc.fnr, ds.fnr(rc.thresholds)) and np.allclose(rc.fpr, ds.fpr(rc.thresholds)) and np.allclose(rc.fpr, r, rtol=1e-9), "roc(fpr=) rates are inconsistent with its thresholds or the requested rates", "data-roc-fpr")
    # the curve's rates are the analytic rates *at the returned thresholds* (not the requested ones passed through): visible where
    # thresholds are coarse - a location far from zero relative to the spread - and in what a kept curve does when the caller
    # re-uses the array of requested rates afterwards
    shift = float(case["_seed"] % 2 * 2 - 1) * float([1e6, 3e9, 1e12][case["_seed"] % 3])
    far = NormalDataset(mu_pos=mu_p + shift, mu_neg=mu_n + shift, sigma_pos=sp, sigma_neg=sn, score_class=sc)
    for which in ("fnr", "fpr"):
        grid = np.array(r, dtype=float)
        grid0 = grid.copy()
        rc = far.roc(**{which: grid})
        C(np.allclose(rc.fnr, far.fnr(rc.thresholds), rtol=1e-13, atol=0) and np.allclose(rc.fpr, far.fpr(rc.thresholds), rtol=1e-13, atol=0),
          "roc(%s=): rates are not the analytic rates at the returned thresholds (location far from zero)" % which, "data-roc-consistent-far", shift=shift,
          rates=np.asarray(getattr(rc, which)), at_thresholds=np.asarray(getattr(far, which)(rc.thresholds)))
        kept = (np.array(rc.fnr, copy=True), np.array(rc.fpr, copy=True), np.array(rc.thresholds, copy=True))
        C(np.array_equal(grid, grid0), "roc() changed the caller's array of requested rates", "data-roc-args")
        grid[:] = grid[::-1].copy()  # the caller re-uses its buffer
        grid *= 0.5
        C(np.array_equal(rc.fnr, kept[0]) and np.array_equal(rc.fpr, kept[1]) and np.array_equal(rc.thresholds, kept[2]),
          "a returned curve changed when the caller re-used the array of requested rates", "data-roc-kept-curve", which=which)
    for kw in ({}, {"fnr": r, "fpr": r}):
        try:
            ds.roc(**kw)
            C(False, "roc() with none/both of fnr and fpr must raise ValueError", "data-roc-raise", kwargs=list(kw))
        except ValueError:
            sess.check("R-data", True, "", None, sig=sig)
    # ---- from_metrics -----------------------------------------------------------------------------------
    fnr, fpr = case["fm"]
    fs, fps = case["sup"]
    sp2, sn2 = (float(x) for x in case["sig2"])
    d2 = NormalDataset.from_metrics(fnr, fpr, fs, fps, sigma_pos=sp2, sigma_neg=sn2)
    wm = dict(fnr=fnr, fpr=fpr, fnr_support=fs, fpr_support=fps, n=d2.n, p_pos=d2.p_pos)
    C(math.isclose(d2.fnr(0.0), fnr, rel_tol=1e-9) and math.isclose(d2.fpr(0.0), fpr, rel_tol=1e-9), "from_metrics: rates at threshold 0 are not the requested ones", "data-fm-rates", **wm, got=[d2.fnr(0.0), d2.fpr(0.0)])
    nbp = d2.n * d2.p_pos
    C(abs(nbp - round(nbp)) <= 1e-6, "from_metrics: n*p_pos is not an integer", "data-fm-int", **wm)
    nbp = round(nbp)
    nbn = d2.n - nbp
    # implied sizes: support / rate, rounded down "to floating-point accuracy" (a quotient within 1e-9 of an integer is that integer)
    qp, qn = fs / fnr, fps / fpr
    C(nbp in (math.floor(qp), math.floor(qp + 1e-9 * max(qp, 1.0))), "from_metrics: number of positives is not fnr_support / fnr", "data-fm-pos", **wm, nb_pos=nbp, quotient=qp)
    C(nbn in (math.floor(qn), math.floor(qn + 1e-9 * max(qn, 1.0))), "from_metrics: number of negatives is not fpr_support / fpr", "data-fm-neg", **wm, nb_neg=nbn, quotient=qn)
    C(str(getattr(d2.score_class, "value", d2.score_class)) == "pos" and d2.sigma_pos == sp2 and d2.sigma_neg == sn2, "from_metrics: wrong score_class or sigmas", "data-fm-cfg")
    d2d = NormalDataset.from_metrics(fnr, fpr, fs, fps)  # sigmas left out: both 1.0, as documented
    C(d2d == NormalDataset.from_metrics(fnr, fpr, fs, fps, sigma_pos=1.0, sigma_neg=1.0) and d2d.sigma_pos == 1.0 and d2d.sigma_neg == 1.0
      and math.isclose(d2d.fnr(0.0), fnr, rel_tol=1e-9) and math.isclose(d2d.fpr(0.0), fpr, rel_tol=1e-9), "from_metrics with the sigmas left out differs from sigma 1.0 spelled out", "data-fm-defaults", **wm)
    smp = d2.sample(rng=np.random.default_rng(case["_seed"]))
    smp_b = d2.sample(rng=np.random.default_rng(case["_seed"]))
    C(len(smp.pos) + len(smp.neg) == d2.n and smp.score_class.value == "pos" and smp == smp_b, "sample(): wrong size/score_class or not reproducible for a fixed rng", "data-sample")
    dn = NormalDataset(mu_pos=mu_p, mu_neg=mu_n, sigma_pos=sp, sigma_neg=sn, score_class=sc, n=23, p_pos=0.25)
    smp = dn.sample(rng=np.random.default_rng(5))
    C(len(smp.pos) + len(smp.neg) == 23, "sample(): n given in the constructor is not used", "data-sample-ctor-n")
    d_pos_ = NormalDataset(mu_p, mu_n, sp, sn, 0.25, 23, sc)  # the documented field order: mu_pos, mu_neg, sigma_pos, sigma_neg, p_pos, n, score_class
    C(d_pos_ == dn and d_pos_.sigma_pos == sp and d_pos_.sigma_neg == sn and d_pos_.mu_neg == mu_n and d_pos_.p_pos == 0.25 and d_pos_.n == 23,
      "NormalDataset built positionally differs from the same arguments given by keyword", "data-positional", got=str(d_pos_), want=str(dn))
    smp41, smp_pp = dn.sample(n=41, rng=np.random.default_rng(5)), dn.sample(p_pos=1.0, rng=np.random.default_rng(5))
    C(len(smp41.pos) + len(smp41.neg) == 41 and len(smp_pp.pos) == 23 and len(smp_pp.neg) == 0, "sample(): an explicit n / p_pos does not win over the one stored on the dataset", "data-sample-explicit-wins",
      got=[len(smp41.pos) + len(smp41.neg), len(smp_pp.pos), len(smp_pp.neg)])
    smp = ds.sample(n=37, rng=np.random.default_rng(1))
    C(len(smp.pos) + len(smp.neg) == 37 and smp.score_class.value == sc and smp.nb_easy_pos == 0 and smp.nb_easy_neg == 0, "sample(n=37): wrong size or score_class", "data-sample-n")
    s1 = ds.sample(n=50, p_pos=1.0, rng=np.random.default_rng(2))
    s0 = ds.sample(n=50, p_pos=0.0, rng=np.random.default_rng(2))
    C(len(s1.pos) == 50 and len(s1.neg) == 0 and len(s0.pos) == 0 and len(s0.neg) == 50, "sample(p_pos=) override not honoured", "data-sample-ppos")
    big = ds.sample(n=4000, p_pos=0.5, rng=np.random.default_rng(3))
    if len(big.pos) > 100 and len(big.neg) > 100:
        zp = (float(np.mean(big.pos)) - mu_p) / (sp / math.sqrt(len(big.pos)))
        zn = (float(np.mean(big.neg)) - mu_n) / (sn / math.sqrt(len(big.neg)))
        C(abs(zp) < 7 and abs(zn) < 7, "sample(): class means are not the model's (7 sigma)", "data-sample-means", z_pos=zp, z_neg=zn)
    # ---- Bernoulli ------------------------------------------------------------------------------------------
    p, nn = case["p"], case["n"]
    # where the size comes from is part of the documented interface: sample(n), the dataset's own n, or both (the explicit one wins)
    size_form = (case["_seed"] // 7) % 4
    n_other = [k_ for k_ in (1, nn + 13, 7, 1000) if k_ != nn][(case["_seed"] // 28) % 3]

    def draw(cls_, kw_, n_, **skw):
        if size_form in (0, 1):
            return cls_(**kw_).sample(n_, **skw)
        if size_form == 2:
            return cls_(**kw_, n=n_).sample(**skw)
        return cls_(**kw_, n=n_other).sample(n=n_, **skw)

    d = draw(BernoulliDataset, dict(p=p), nn, random=False, rng=np.random.default_rng(2))
    k = int(d.sum())
    C(d.shape == (nn,) and set(np.unique(d).tolist()) <= {0, 1}, "Bernoulli non-random sample: wrong shape or values", "data-bern-shape", p=p, n=nn)
    C(k <= nn * p * (1 + 1e-12) + 1e-9 and k > nn * p - 1 - 1e-9, "Bernoulli non-random sample: successes != floor(n*p)", "data-bern-count", p=p, n=nn, k=k)
    if case["_seed"] % 250 == 0:
        # large draws with a rate close to (but not at) a small-denominator fraction, or a rare-event rate: floor(n*p) exactly
        from fractions import Fraction
        for pb, nb in ((3.5e-7, 10 ** 7), (0.5000002, 10 ** 7), (1.0 / 3 + 1e-7, 3 * 10 ** 6), (1 - 3.5e-7, 10 ** 7), (float(case["u"][0]), 2 * 10 ** 6)):
            kb = int(BernoulliDataset(p=pb).sample(nb, random=False, rng=np.random.default_rng(3)).sum())
            ex = Fraction(pb) * nb
            C(abs(kb - math.floor(ex)) <= (1 if min(ex - math.floor(ex), math.ceil(ex) - ex) < Fraction(1, 10 ** 6) else 0),
              "Bernoulli non-random sample (large n): successes != floor(n*p)", "data-bern-count-large", p=pb, n=nb, k=kb, exact=float(ex))
    dr = BernoulliDataset(p=p, n=nn).sample(rng=np.random.default_rng(2)) if size_form != 3 else BernoulliDataset(p=p, n=n_other).sample(n=nn, rng=np.random.default_rng(2))
    C(dr.shape == (nn,) and set(np.unique(dr).tolist()) <= {0, 1} and (p not in (0.0, 1.0) or int(dr.sum()) == int(p * nn)), "Bernoulli random sample: wrong shape/values", "data-bern-random", p=p, n=nn)
    # ---- correlated pair --------------------------------------------------------------------------------------
    p1, p2 = (float(x) for x in case["p12"])
    c = (1 - p1) * (1 - p2)
    sq = math.sqrt(p1 * p2 * c)
    lo = max(-c, 1 - p1 - p2 - c) / sq
    hi = min(1 - p2 - c, 1 - p1 - c) / sq
    u = case["u"]
    if hi - lo > 4e-6:
        trials = [(lo + 1e-6 + (hi - lo - 2e-6) * u[0], True), (hi + 1e-3 + 0.5 * u[1], False), (lo - 1e-3 - 0.5 * u[2], False)]
    else:
        trials = [(hi + 1e-3 + 0.5 * u[1], False), (lo - 1e-3 - 0.5 * u[2], False)]
    for rho, valid in trials:
        ddk = dict(p1=p1, p2=p2, rho=float(rho))
        wc = dict(p1=p1, p2=p2, rho=float(rho), feasible=[lo, hi], n=nn, size_form=size_form, n_other=n_other)
        try:
            x = draw(CorrelatedBernoullilDataset, ddk, nn, random=False, rng=np.random.default_rng(3))
            xr = draw(CorrelatedBernoullilDataset, ddk, nn, random=True, rng=np.random.default_rng(3))
        except ValueError as e:
            C(not valid, "correlated pair: ValueError for a feasible rho", "data-corr-raise-valid", **wc, exc=repr(e))
            continue
        if not valid:
            C(False, "correlated pair: no ValueError for an infeasible rho (negative joint probability)", "data-corr-no-raise", **wc)
            continue
        C(x.shape == (2, nn) and set(np.unique(x).tolist()) <= {0, 1} and xr.shape == (2, nn) and set(np.unique(xr).tolist()) <= {0, 1}, "correlated pair: wrong shape or values", "data-corr-shape", **wc)
        C(abs(int(x[0].sum()) - nn * p1) <= 3 and abs(int(x[1].sum()) - nn * p2) <= 3, "correlated pair: marginal counts not within three draws of n*p", "data-corr-marginals", **wc, sums=[int(x[0].sum()), int(x[1].sum())])
        a = c + rho * sq
        pj = [a, 1 - p2 - a, 1 - p1 - a, p1 + p2 + a - 1]
        joint = (x[0] + 2 * x[1]).astype(int)
        cnt = np.bincount(joint, minlength=4)
        C(all(abs(int(cnt[j]) - math.floor(nn * pj[j] + 1e-9)) <= (1 if j < 3 else 3) for j in range(4)), "correlated pair: joint cell counts are not floor(n*p_joint)", "data-corr-joint", **wc, counts=cnt.tolist(), p_joint=pj)
    sess.sig_counts[("case", sc)] += 1
    return True
