"""C05 — multiclass confusion matrices: faithful construction, conservative one-vs-all."""

from __future__ import annotations

import numpy as np

from .. import monitors

PID = "C05"
ANCHORS = ["cm.py:ConfusionMatrix.__init__", "cm.py:ConfusionMatrix._assign_from_predictions", "cm.py:ConfusionMatrix._assign_from_matrix",
           "cm.py:ConfusionMatrix.one_vs_all", "cm.py:ConfusionMatrix._class_metric_as_dict", "cm.py:cm_class_metric.<locals>.decorator.<locals>.wrapper"]
RAISES_ARE_VIOLATIONS = True
DECIDING = {"M-cmx": 42640, "R-cmx": 11691}
THOROUGH_EXTRA = ["W2"]
RULE = (
    "R-cmx per case: a dictionary tally of weights per (label, prediction) in the requested class order must equal ConfusionMatrix(labels, "
    "predictions, weights, classes).matrix; the same data given as nested lists, dict of dicts, DataFrame with independently permuted rows and "
    "columns, and with a class permutation must give the permuted reference; per-class metrics (tpr, fpr, ppv, tp, p, top, class_accuracy, "
    "tpr_ci, fnr_ci, ...) have shape X+(N,) (+(2,) for CIs), as_dict entries equal np.take along the class axis, are equivariant under class "
    "permutation, accuracy == trace/population. M-cmx on every one_vs_all call (incl. those made by per-class metrics): shape X+(N,2,2), each "
    "2x2 sums to the total, TP = diagonal, P = row sums, TOP = column sums. W1: 2-6 classes named by ints, strings, non-contiguous ints; 0-40 "
    "samples; int / float / absent weights; vectorised matrices with X up to 2-d incl. size-0. Non-trivial: >= 1 sample and >= 3 classes or "
    "off-diagonal mass; distinct = hash of inputs."
    ' Build-phase additions: integer weights up to 1e16 compared exactly (Python integers), 17-260 classes, as_dict results typed, every alias.'
)
ASSUMPTIONS = ["non-negative finite weights/entries", "pandas only as a container"]
PER_CLASS = ["tpr", "fpr", "tnr", "fnr", "ppv", "npv", "fdr", "for_", "tp", "fn", "fp", "tn", "p", "n", "top", "ton", "topr", "tonr", "class_accuracy", "class_error_rate", "tar", "far", "frr", "trr",
             "acceptance_rate", "rejection_rate"]
PER_CLASS_CI = ["tpr_ci", "fnr_ci", "tnr_ci", "fpr_ci", "tar_ci", "frr_ci", "trr_ci", "far_ci"]


def install(ctx):
    monitors.install_cmx(ctx.sess)


def cases(ctx):
    rng = ctx.rng
    for i in range(ctx.n(260, 1200)):
        K = int(rng.integers(2, 7))
        many = rng.random() < 0.1  # many classes: index arithmetic beyond 8/16 bits
        if many:
            K = int(rng.choice([17, 24, 40, 70, 130, 260], p=[.3, .25, .2, .12, .08, .05]))
        kind = int(rng.integers(0, 3))
        classes = list(range(K)) if kind == 0 else ((list("abcdefg"[:K]) if K <= 7 else ["c%03d" % j for j in range(K)]) if kind == 1 else [10 * i - 7 for i in range(K)])
        m = int(rng.integers(0, 41)) if not many else int(rng.integers(60, 500))
        if i < 3 or rng.random() < 0.02:  # sample counts at and around block sizes of a vectorised accumulation (three per run for certain)
            m = [4096, 8192, 1024][i] if i < 3 else int(rng.choice([4096, 8192, 4095, 4097, 1024, 2048, 65536 // 8]))
        idx_l = rng.integers(0, K, m)
        idx_p = np.where(rng.random(m) < 0.6, idx_l, rng.integers(0, K, m))
        wk = int(rng.integers(0, 3))
        w = None if wk == 0 else (rng.integers(1, 5, m) if wk == 1 else rng.uniform(0.1, 3, m))
        if wk == 1 and i % 5 == 2:
            # integer weights in very fine base units (or one aggregated stratum of 1e16 beside ordinary samples): integer cells are exact totals,
            # also beyond 2**53
            hi_ = min(10 ** 16, (2 * 10 ** 18) // max(m, 1))  # every cell total (and the population) stays inside int64
            w = rng.integers(hi_ // 10, hi_, m) * 2 + 1 if rng.random() < 0.5 else np.where(rng.random(m) < 0.2, hi_ + 1, rng.integers(1, 9, m)).astype(np.int64)
        lead = tuple(int(x) for x in rng.integers(0, 3, int(rng.integers(0, 3))))
        M = rng.integers(0, 9, (*lead, K, K)) if rng.random() < 0.5 else rng.uniform(0, 5, (*lead, K, K))
        if rng.random() < 0.2:  # weights / entries of another magnitude (importance weights of 1e-12, populations of 1e12): exact power-of-two scaling
            c_ = 2.0 ** int(rng.choice([-60, -45, -30, 20, 40]))
            if w is not None and w.dtype.kind == "f":
                w = w * c_
            if M.dtype.kind == "f":
                M = M * c_
        yield {"classes": [str(c) if kind == 1 else int(c) for c in classes], "kind": kind, "idx_l": idx_l, "idx_p": idx_p, "w": w,
               "order": rng.permutation(K), "perm": rng.permutation(K), "colperm": rng.permutation(K), "rowperm": rng.permutation(K), "M": M,
               "alpha": float(rng.uniform(0.01, 0.5))}


def execute(ctx, case):
    import pandas as pd
    from score_analysis import ConfusionMatrix

    sess = ctx.sess
    base = case["classes"]
    K = len(base)
    order = [base[i] for i in case["order"]]
    lab = [base[i] for i in case["idx_l"]]
    pred = [base[i] for i in case["idx_p"]]
    w = case["w"]
    sig = ("K%d" % K, case["kind"], "w" + ("-" if w is None else w.dtype.kind))
    wit = lambda **kw: (lambda: dict({"classes": order, "labels": lab, "predictions": pred, "weights": w}, **kw))  # noqa: E731
    sess.observe("R-cmx")
    C = lambda ok, what, key, **kw: sess.check("R-cmx", bool(ok), what, wit(**kw), sig=sig, key=key)  # noqa: E731
    dt = np.asarray(base).dtype
    cm = ConfusionMatrix(labels=np.asarray(lab, dtype=dt), predictions=np.asarray(pred, dtype=dt), weights=w, classes=order)
    ref = np.zeros((K, K), dtype=float)
    tally = {}
    for i, (l, p) in enumerate(zip(lab, pred)):
        tally[(l, p)] = tally.get((l, p), 0) + (1 if w is None else float(w[i]))
    for (l, p), v in tally.items():
        ref[order.index(l), order.index(p)] = v
    at_ = 1e-12 * (float(np.abs(ref).max()) or 1.0)  # relative to the magnitude of the weights (importance weights of 1e-18 are data, too)
    C(cm.matrix.shape == (K, K) and np.allclose(cm.matrix, ref, rtol=1e-12, atol=at_), "matrix entry [i,j] is not the total weight of (label i, prediction j)", "cmx-build", got=cm.matrix, expected=ref)
    C(list(cm.classes) == order, "classes are not in the requested order", "cmx-classes", got=list(cm.classes))
    if w is not None and np.asarray(w).dtype.kind in "iu":
        # integer weights: every cell is an exact integer total (Python integers as the reference, no float in between)
        exact = [[0] * K for _ in range(K)]
        for i, (l, p) in enumerate(zip(lab, pred)):
            exact[order.index(l)][order.index(p)] += int(w[i])
        got_int = [[int(v) for v in row] for row in np.asarray(cm.matrix).tolist()]
        C(np.asarray(cm.matrix).dtype.kind in "iu" and got_int == exact and int(cm.pop()) == sum(int(v) for v in np.asarray(w).tolist()),
          "integer-weighted matrix is not the exact integer total per cell / pop() is not the total weight", "cmx-build-exact", got=got_int, expected=exact)
    # the same samples handed over in other containers: lists, tuples, pandas Series with a non-default index (a column of a
    # sorted / shuffled / filtered frame) - positions are what pairs label, prediction and weight, never index labels
    m_ = len(lab)
    idx_ = (np.random.default_rng(m_ + K).permutation(m_) * 2 + 5) if m_ else np.zeros(0, dtype=int)
    forms = [("lists", lab, pred, None if w is None else w.tolist()),
             ("series", pd.Series(lab, index=idx_, dtype=object if dt.kind in "OU" else None), pd.Series(pred, index=idx_[::-1], dtype=object if dt.kind in "OU" else None),
              None if w is None else pd.Series(w, index=idx_[::-1] + 1)),
             ("tuples+weights-series", tuple(lab), tuple(pred), None if w is None else pd.Series(w, index=np.roll(idx_, 1)))]
    for fname, l_, p_, w_ in forms:
        try:
            cmf = ConfusionMatrix(labels=l_, predictions=p_, weights=w_, classes=order)
        except Exception as e:  # noqa: BLE001
            C(False, "constructor raised for the same samples in another container", "cmx-build-form", form=fname, exc=repr(e))
            continue
        C(cmf.matrix.shape == (K, K) and np.allclose(np.asarray(cmf.matrix, dtype=float), ref, rtol=1e-12, atol=at_),
          "matrix differs when the same samples are given in another container", "cmx-build-form", form=fname, got=cmf.matrix, expected=ref)
    present = sorted(set(lab) | set(pred))
    if len(present) >= 2:  # default class order: sorted distinct values
        cm0 = ConfusionMatrix(labels=np.asarray(lab, dtype=dt), predictions=np.asarray(pred, dtype=dt), weights=w)
        if True:
            sub = [order.index(c) for c in present]
            C(list(cm0.classes) == present and np.allclose(cm0.matrix, ref[np.ix_(sub, sub)], rtol=1e-12, atol=at_), "default class order is not the sorted distinct values", "cmx-default-classes")
    # equivalent inputs
    perm = [order[i] for i in case["perm"]]
    pi = [order.index(c) for c in perm]
    refp = ref[np.ix_(pi, pi)]
    d = {r: {c: ref[i, j] for j, c in enumerate(order)} for i, r in enumerate(order)}
    cm2 = ConfusionMatrix(matrix=d, classes=perm)
    df = pd.DataFrame(ref, index=order, columns=order)
    df = df.loc[[order[i] for i in case["rowperm"]], [order[i] for i in case["colperm"]]]
    cm3 = ConfusionMatrix(matrix=df, classes=perm)
    cm3b = ConfusionMatrix(matrix=df)
    cm4 = ConfusionMatrix(matrix=ref.tolist(), classes=order)
    # dict of dicts without classes=: the outer keys define the class order, each row may list its keys in any order
    d_mixed = {}
    for i, r in enumerate(order):
        cols = [order[(k + i + int(case["perm"][0])) % K] for k in range(K)]
        d_mixed[r] = {c_: ref[i, order.index(c_)] for c_ in cols}
    cm5 = ConfusionMatrix(matrix=d_mixed)
    C(np.allclose(cm5.matrix, ref, rtol=1e-12, atol=at_) and list(cm5.classes) == order, "dict-of-dicts input whose rows list their keys in another order gives a different matrix", "cmx-dict-row-order")
    ri = [order.index(c) for c in df.index]
    C(np.allclose(cm2.matrix, refp, rtol=1e-12, atol=at_) and list(cm2.classes) == perm, "dict-of-dicts input with a class permutation gives a different matrix", "cmx-dict")
    C(np.allclose(cm3.matrix, refp, rtol=1e-12, atol=at_) and list(cm3.classes) == perm, "DataFrame input (rows/columns permuted) with a class permutation gives a different matrix", "cmx-dataframe")
    C(np.allclose(cm3b.matrix, ref[np.ix_(ri, ri)], rtol=1e-12, atol=at_) and list(cm3b.classes) == list(df.index), "DataFrame input without classes does not follow its row order", "cmx-dataframe-default")
    C(np.allclose(cm4.matrix, ref, rtol=1e-12, atol=at_) and list(cm4.classes) == order, "nested-list input gives a different matrix", "cmx-lists")
    # vectorised one-vs-all and per-class metrics
    M = case["M"]
    lead = M.shape[:-2]
    c = ConfusionMatrix(matrix=M, classes=order)
    c.one_vs_all()  # judged by M-cmx
    cp = ConfusionMatrix(matrix=M[..., pi, :][..., :, pi], classes=perm)
    for nm in PER_CLASS + PER_CLASS_CI:
        is_ci = nm.endswith("_ci")
        kw = {"alpha": case["alpha"]} if is_ci else {}
        v = np.asarray(getattr(c, nm)(**kw))
        dct = getattr(c, nm)(as_dict=True, **kw)
        if not C(isinstance(dct, dict), "as_dict=True does not return a dict keyed by class", "cmx-asdict-type", metric=nm, got=type(dct).__name__):
            continue
        exp_shape = (*lead, K) + ((2,) if is_ci else ())
        if not C(v.shape == exp_shape, "per-class metric has the wrong shape", "cmx-pc-shape", metric=nm, got=v.shape, expected=exp_shape):
            continue
        ax = -2 if is_ci else -1
        C(list(dct.keys()) == order and all(np.array_equal(np.take(v, j, axis=ax), dct[cl], equal_nan=True) for j, cl in enumerate(order)),
          "as_dict entries differ from the array form", "cmx-asdict", metric=nm)
        vp = np.asarray(getattr(cp, nm)(**kw))
        # with float weights the cells differ by an ulp under reordering; sqrt(p(1-p)/n) turns that into ~1e-8 near p in {0,1}
        atol = 2e-7 if (is_ci and M.dtype.kind == "f") else 1e-12
        fin_ = np.abs(v[np.isfinite(v)]) if v.dtype.kind in "fiu" else np.zeros(0)
        atol = atol * min(1.0, float(fin_.max()) if fin_.size else 1.0)  # counts of tiny-weight matrices: relative, not absolute
        C(np.allclose(np.take(v, pi, axis=ax), vp, rtol=1e-12, atol=atol, equal_nan=True), "per-class metric not equivariant under class permutation", "cmx-perm", metric=nm, M=M)
    if len(lead) >= 1 and lead[0] >= 1:  # indexing a vectorised matrix commutes with per-class metrics
        i0 = int(case["order"][0]) % lead[0]
        sub = c[i0]
        C(list(sub.classes) == order and np.array_equal(sub.matrix, M[i0]) and np.array_equal(np.asarray(sub.tpr()), np.asarray(c.tpr())[i0], equal_nan=True)
          and np.array_equal(np.asarray(sub.ppv()), np.asarray(c.ppv())[i0], equal_nan=True), "indexing a vectorised matrix does not commute with per-class metrics", "cmx-getitem")
    tot = M.sum(axis=-1).sum(axis=-1)
    tr = np.trace(M, axis1=-2, axis2=-1)
    with np.errstate(all="ignore"):
        acc_ref = np.where(tot != 0, tr / np.where(tot == 0, 1, tot), np.nan)
    C(np.allclose(np.asarray(c.accuracy(), dtype=float), acc_ref, rtol=1e-12, atol=0, equal_nan=True), "accuracy is not trace over population", "cmx-accuracy")
    C(np.allclose(np.asarray(c.pop(), dtype=float), tot, rtol=1e-12, atol=0), "pop is not the total", "cmx-pop")
    sess.sig_counts[("case",) + sig + ("lead%d" % len(lead),)] += 1
    return bool(len(lab) >= 1 and (K >= 3 or any(a != b for a, b in zip(lab, pred))))
