"""C13 — bootstrap confidence limits follow the documented quantile/BC/BCa formulas."""

from __future__ import annotations

import numpy as np

from .. import monitors
from .. import refmodel as R

PID = "C13"
ANCHORS = ["utils.py:bootstrap_ci"]
DECIDING = {"M-bci": 23712, "R-bci": 10056}
THOROUGH_EXTRA = ["W2", "W3"]
RULE = (
    "Every utils.bootstrap_ci call (also through the names bound in showbias and experimental.roc_ci) is observed by M-bci and compared "
    "component by component with a stdlib reference (hand-written linear-interpolation quantile on the finite replicates, NormalDist "
    "ppf/cdf with +-inf handled, math.fsum acceleration) and the shape Y+alpha_shape+(2,). Relations R-bci per case on further monitored calls: "
    "limits ordered and within the finite replicate range, unchanged by inserting NaN rows and by permuting rows, equivariant under exactly "
    "representable affine maps (2^k * x + integer on dyadic data), nested in alpha, column j of an (N,Y) call equals the 1-d call; for bca the "
    "ordering/nesting relations only where |a*(z0+z_alpha)| < 1 on both tails. W1: N in {1,2,3,5,10,50,200,500}; Gaussian, constant, lattice, "
    "skewed, outlier-laden, NaN-laden, integer dtype, dyadic; estimate at median/mean/outside/at a replicate/random; alpha scalar incl. 0.001..0.999 "
    "and arrays up to 3-d (quantile); Y up to 2-d. Non-trivial: >= 2 distinct finite replicates; distinct = hash of inputs."
    " Build-phase additions: narrow integer and float32 replicates (tolerance in the replicates' own precision), pole cases a*(z0+z_alpha) >= 1, documented-default relation."
)
ASSUMPTIONS = ["finite or NaN replicates (no inf); a component without finite replicates has NaN limits", "alpha in (0,1); array alpha only with method quantile",
               "statistics.NormalDist and math.fsum are trusted"]
METHODS = ["quantile", "bc", "bca"]


def install(ctx):
    monitors.install_bci(ctx.sess)


def _data(rng, N, kind):
    if kind == "gauss":
        return rng.normal(0, 1, N)
    if kind == "const":
        return np.full(N, float(rng.normal()))
    if kind == "lattice":
        return rng.integers(0, 4, N).astype(float)
    if kind == "skew":
        return rng.exponential(1, N) ** 2
    if kind == "outlier":
        return np.concatenate([rng.normal(0, 1, N - 1), [1e6]]) if N > 1 else rng.normal(0, 1, N)
    if kind == "nan":
        th = rng.normal(0, 1, N)
        if N > 1:
            th[rng.integers(0, N, size=max(1, N // 4))] = np.nan
        if np.all(np.isnan(th)):
            th[0] = 0.3
        return th
    if kind == "int":
        return rng.integers(-3, 9, N)
    if kind == "infrep":  # a metric that is infinite on some resamples (a threshold at an unattainable rate): +-inf are replicates, only NaN is ignored
        th = rng.normal(0, 1, N)
        if N > 2:
            th[rng.integers(0, N, size=max(1, N // 10))] = float(rng.choice([np.inf, -np.inf, np.inf]))
        return th
    if kind == "f32rates":  # rates k/n computed in single precision (a float32 pipeline); the estimate comes in double precision
        n_ = int(rng.choice([30, 7, 100, 12]))
        return (rng.binomial(n_, float(rng.uniform(0.1, 0.9)), N) / n_).astype(np.float32)
    if kind == "narrowint":  # replicates of an integer-valued metric in a narrow type (a quantised score, a count in uint16): differences leave the type's range
        dt = [np.uint8, np.int8, np.uint16, np.int16][int(rng.integers(0, 4))]
        ii = np.iinfo(dt)
        return rng.integers(ii.min, ii.max + 1, N).astype(dt) if rng.random() < 0.5 else rng.integers(max(ii.min, 90), min(ii.max, 140) + 1, N).astype(dt)
    # dyadic: multiples of 2^-10 in +-2^6, exact under 2^k*x + integer
    return rng.integers(-(2 ** 16), 2 ** 16, N) / 1024.0


def cases(ctx):
    rng = ctx.rng
    kinds = ["gauss", "const", "lattice", "skew", "outlier", "nan", "int", "dyadic", "narrowint", "f32rates", "infrep"]
    for i in range(ctx.n(1200, 6000)):
        N = int(rng.choice([1, 2, 3, 5, 10, 50, 200, 500], p=[.1, .1, .1, .15, .2, .2, .1, .05]))
        kind = str(rng.choice(kinds))
        th = _data(rng, N, kind)
        fin = th[~np.isnan(th.astype(float))].astype(float)
        that = float(rng.choice([float(np.median(fin)), fin.mean(), fin.min() - 1, fin.max() + 1, float(rng.choice(fin)), float(rng.normal())]))
        if kind in ("int", "dyadic", "lattice"):
            that = float(np.round(that * 1024) / 1024)
        if kind == "f32rates":  # an estimate k/n in double precision: next to (not on) the single-precision replicates equal to it in exact arithmetic
            n_ = int(rng.choice([30, 7, 100, 12]))
            that = float(int(rng.integers(0, n_ + 1)) / n_) if rng.random() < 0.7 else float(np.float64(rng.choice(th)))
        if kind == "narrowint":  # the estimate of such a metric is a value of the same type
            that = th.dtype.type(int(np.clip(round(that), np.iinfo(th.dtype).min, np.iinfo(th.dtype).max)))
        if kind == "int" and rng.random() < 0.6:
            that = int(round(that))  # integer estimate with integer replicates (an integer-valued metric)
        alpha = float(rng.choice([0.05, 0.1, 0.5, 0.01, 0.9, float(rng.uniform(0.001, 0.999))]))
        if kind not in ("int", "narrowint", "f32rates", "infrep") and rng.random() < 0.3:  # replicates of another magnitude (small rates, large counts): exact power-of-two scaling
            c = 2.0 ** int(rng.integers(-45, 46))
            th, that, kind = th * c, that * c, kind + "*2^k"
        if i % 40 == 7:
            # beyond the pole of (11.39): replicates dominated by one far outlier (|a| close to 1/6), the estimate just inside the extreme
            # replicates (|z0| about 3) and a small alpha, so that a*(z0 + z_alpha) >= 1 - the documented formula is claimed there, too
            N = int(rng.choice([600, 1000, 2000]))
            sgn = float(rng.choice([-1.0, 1.0]))
            th = np.abs(rng.normal(0, 1e-3, N))
            th[int(rng.integers(0, N))] = float(rng.choice([0.8, 5.0, 0.05]))
            that = float(np.sort(th)[-2] * 1.01)
            th, that = sgn * th, sgn * that
            alpha, kind = float(rng.choice([0.001, 0.0005, 1e-4, 0.002])), "pole"
        yield {"theta": th, "that": that, "alpha": alpha, "alpha2": float(rng.uniform(0.001, 0.999)), "kind": kind,
               "ashape": [int(x) for x in rng.integers(1, 3, int(rng.integers(0, 4)))], "yshape": [int(x) for x in rng.integers(1, 4, int(rng.integers(1, 3)))],
               "_seed": int(rng.integers(1 << 31)), "k": int(rng.integers(-2, 4)), "d": int(rng.integers(-5, 6))}


def scenarios(ctx):
    rng = ctx.rng
    for i in range(ctx.n(6, 10)):
        yield {"theta": rng.normal(0, 1, 5), "that": 0.0, "alpha": 0.05, "alpha2": 0.2, "kind": "traffic", "ashape": [], "yshape": [2],
               "_seed": int(rng.integers(1 << 31)), "k": 0, "d": 0}


def _traffic(case):
    import pandas as pd
    from score_analysis import BootstrapConfig, Scores, roc_with_ci, showbias

    rs = np.random.default_rng(case["_seed"])
    np.random.seed(case["_seed"])
    s = Scores(rs.normal(1, 1, 40), rs.normal(-1, 1, 50))
    for bm in METHODS:
        cfg = BootstrapConfig(nb_samples=30, bootstrap_method=bm)
        s.bootstrap_ci("fnr", config=cfg, threshold=np.array([-0.5, 0.0, 0.7]))
        s.bootstrap_ci("eer", config=cfg)
        s.bootstrap_ci(lambda x: x.cm(0.3).matrix, config=cfg)  # integer-valued matrix metric
        roc_with_ci(s, nb_points=8, config=cfg)
    n = 120
    df = pd.DataFrame({"g": rs.choice(["A", "B", "C"], n), "score": rs.uniform(0, 1, n), "label": rs.integers(0, 2, n)})
    for bm in METHODS:
        for norm in (None, "by_overall"):
            showbias(df, "g", "label", "score", "fnr", normalize=norm, bootstrap_ci=True, threshold=[0.3, 0.6],
                     bootstrap_config=BootstrapConfig(nb_samples=25, bootstrap_method=bm, stratified_sampling="by_group"))


def execute(ctx, case):
    from score_analysis.utils import bootstrap_ci

    sess = ctx.sess
    if case["kind"] == "traffic":
        _traffic(case)
        return True
    th, that, alpha, alpha2 = case["theta"], case["that"], case["alpha"], case["alpha2"]
    if case["kind"] == "infrep":
        # replicates that are +-inf on some resamples: they are replicates (only NaN is ignored), so they count in the fraction p0 and in the
        # quantiles. Claimed for 'quantile' and 'bc' with a finite estimate (the acceleration of 'bca' is undefined with an infinite deviation:
        # the library raises there, and nothing is claimed); the monitor's generic formula check is out of scope for these inputs
        import scipy.stats as _st

        thf_ = np.asarray(th, dtype=float)
        that_ = float(that) if np.isfinite(float(that)) else 0.0
        nn_ = int(np.sum(~np.isnan(thf_)))
        sess.observe("R-bci")
        with monitors.oracle_scope_ctx():
            got_q = bootstrap_ci(thf_, that_, alpha, method="quantile")
            got_bc = bootstrap_ci(thf_, that_, alpha, method="bc")
        with np.errstate(all="ignore"):
            exp_q = np.nanquantile(thf_, [alpha / 2, 1 - alpha / 2])
            z0_ = _st.norm.ppf(np.sum(thf_ <= that_) / nn_)
            exp_bc = np.nanquantile(thf_, [_st.norm.cdf(2 * z0_ + _st.norm.ppf(alpha / 2)), _st.norm.cdf(2 * z0_ + _st.norm.ppf(1 - alpha / 2))])
        sess.check("R-bci", np.allclose(got_q, exp_q, rtol=1e-12, atol=0, equal_nan=True) and np.allclose(got_bc, exp_bc, rtol=1e-9, atol=1e-12, equal_nan=True),
                   "quantile / bc limits with infinite replicates differ from the documented formulas (inf counts as a replicate, NaN does not)",
                   lambda: {"theta": thf_, "theta_hat": that_, "alpha": alpha, "quantile": got_q, "expected_quantile": exp_q, "bc": got_bc, "expected_bc": exp_bc}, sig=("infrep",), key="bci-infinite-replicates")
        sess.sig_counts[("case", "infrep")] += 1
        return True
    rs = np.random.default_rng(case["_seed"])
    thf = th.astype(float)
    fin = thf[~np.isnan(thf)]
    lo_f, hi_f = float(fin.min()), float(fin.max())
    scale = float(np.abs(fin).max()) or 1.0  # relative to the replicates' own magnitude
    tol = 1e-9 * scale + 4e-14 * len(th) * (hi_f - lo_f)
    if th.dtype.kind == "f" and th.dtype.itemsize < 8:
        tol += 512 * float(np.finfo(th.dtype).eps) * max(hi_f - lo_f, scale)  # terms formed in the replicates' own (single) precision
    sess.observe("R-bci")
    # documented defaults: alpha=0.05, method="quantile" (which needs no point estimate); leaving them out must mean exactly that
    d_all = bootstrap_ci(th, that, 0.05, method="quantile")
    sess.check("R-bci", np.array_equal(bootstrap_ci(th, that), d_all, equal_nan=True) and np.array_equal(bootstrap_ci(th), d_all, equal_nan=True)
               and np.array_equal(bootstrap_ci(th, that, alpha), bootstrap_ci(th, that, alpha, method="quantile"), equal_nan=True),
               "bootstrap_ci with alpha / method / theta_hat left out differs from the documented defaults (0.05, quantile) spelled out",
               lambda: {"theta": th, "theta_hat": that, "alpha": alpha, "omitted": bootstrap_ci(th, that), "explicit": d_all}, sig=("defaults", case["kind"]), key="bci-defaults")
    for method in METHODS:
        sig = (method, case["kind"], "N%d" % len(th) if len(th) <= 3 else "N>3")
        ci = bootstrap_ci(th, that, alpha, method=method)  # judged by M-bci (formula + shape)

        def w(**kw):
            return lambda: dict({"method": method, "theta": th, "theta_hat": that, "alpha": alpha, "ci": ci}, **kw)

        margin = R.bca_pole_margin(thf.tolist(), that, alpha) if method == "bca" else 1.0
        margin2 = R.bca_pole_margin(thf.tolist(), that, alpha2) if method == "bca" else 1.0
        if np.any(np.isnan(ci)):
            sess.skip("R-bci", "NaN limit (pole)")
            continue
        sess.check("R-bci", lo_f - tol <= ci[0] and ci[1] <= hi_f + tol, "limits outside the range of the finite replicates", w(range=[lo_f, hi_f]), sig=sig, key="bci-range")
        if margin > 1e-6:
            sess.check("R-bci", ci[0] <= ci[1] + tol, "lower limit above upper limit", w(), sig=sig, key="bci-order")
        # NaN insertion and permutation
        th2 = np.concatenate([thf, np.full(int(rs.integers(1, 4)), np.nan)])[rs.permutation(len(th) + 0) if False else slice(None)]
        th2 = th2[rs.permutation(len(th2))]
        ci2 = bootstrap_ci(th2, that, alpha, method=method)
        sess.check("R-bci", bool(np.allclose(ci2, ci, rtol=0, atol=tol, equal_nan=True)), "limits changed by NaN rows / row permutation", w(ci_perm=ci2), sig=sig, key="bci-nan-perm")
        # nested in alpha
        if margin > 1e-6 and margin2 > 1e-6:
            a_small, a_big = sorted([alpha, alpha2])
            c_s = bootstrap_ci(th, that, a_small, method=method)
            c_b = bootstrap_ci(th, that, a_big, method=method)
            if not (np.any(np.isnan(c_s)) or np.any(np.isnan(c_b))):
                sess.check("R-bci", c_s[0] <= c_b[0] + tol and c_b[1] <= c_s[1] + tol, "intervals not nested in alpha",
                           w(alpha_small=a_small, alpha_big=a_big, ci_small=c_s, ci_big=c_b), sig=sig, key="bci-nested")
        # exact affine map
        if case["kind"].split("*")[0] in ("dyadic", "int", "lattice"):
            c, d = 2.0 ** case["k"], float(case["d"])
            if "*" in case["kind"]:
                d = 0.0  # an integer offset is exact on the dyadic grid only; rescaled data keeps the pure (exact) scaling
            ci3 = bootstrap_ci(c * thf + d, c * that + d, alpha, method=method)
            sess.check("R-bci", bool(np.allclose(ci3, c * ci + d, rtol=0, atol=max(c, 1) * tol * 4, equal_nan=True)), "limits not equivariant under an increasing affine map",
                       w(c=c, d=d, ci_mapped=ci3), sig=sig, key="bci-affine")
    # per-component independence and shapes with metric shape Y (and alpha arrays for quantile)
    Y = tuple(case["yshape"])
    big = np.stack([np.roll(thf, j) * (1 + (j % 3)) + j for j in range(int(np.prod(Y)))], axis=1).reshape((len(th),) + Y)
    if case["_seed"] % 4 == 0 and int(np.prod(Y)) > 1:
        big[(slice(None),) + np.unravel_index(int(np.prod(Y)) - 1, Y)] = np.nan  # a component without any replicate: limits must be NaN
    that_y = (that + np.arange(int(np.prod(Y)), dtype=float)).reshape(Y)
    lay = case["_seed"] % 3  # memory layout of the replicate array must not matter
    if lay == 1:
        big = np.asfortranarray(big)
    elif lay == 2:
        big, that_y = np.asfortranarray(big), np.asfortranarray(that_y)
    for method in METHODS:
        full = bootstrap_ci(big, that_y, alpha, method=method)
        j = int(rs.integers(0, int(np.prod(Y))))
        idx = np.unravel_index(j, Y)
        one = bootstrap_ci(big[(slice(None),) + idx], float(that_y[idx]), alpha, method=method)
        sess.check("R-bci", full.shape == Y + (2,) and bool(np.allclose(full[idx], one, rtol=0, atol=4 * tol * 3 + 1e-12, equal_nan=True)),
                   "component of a vector-valued call differs from the 1-d call", lambda: {"method": method, "Y": Y, "full_j": full[idx], "single": one},
                   sig=(method, "component"), key="bci-component")
    A = tuple(case["ashape"])
    if A:
        al = rs.uniform(0.001, 0.999, A)
        got = bootstrap_ci(big, None, al, method="quantile")  # shape Y+A+(2,): judged by M-bci
        sess.check("R-bci", got.shape == Y + A + (2,), "quantile with array alpha: wrong shape", lambda: {"Y": Y, "A": A, "got": got.shape}, sig=("quantile", "alpha-array"), key="bci-alpha-shape")
    sess.sig_counts[("case", case["kind"], "N%d" % len(th) if len(th) <= 5 else "N>5")] += 1
    return bool(len(np.unique(fin)) >= 2)
