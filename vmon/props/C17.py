"""C17 — general threshold search returns true solutions of the interpolated metric."""

from __future__ import annotations

import numpy as np

from .. import gen, monitors

PID = "C17"
ANCHORS = ["utils.py:invert_pl_function", "scores.py:Scores.threshold_at_metric"]
RAISES_ARE_VIOLATIONS = True
DECIDING = {"M-ipl": 133089, "R-tam": 350}
THOROUGH_EXTRA = ["W2"]
RULE = (
    "Every utils.invert_pl_function call (also via Scores.threshold_at_metric) is observed by M-ipl: one entry per target (scalar target: bare "
    "array); each entry strictly increasing and inside [x0, x_last]; if min y <= t <= max y every returned point s satisfies |f(s)-t| <= "
    "1e-9*scale (+ slope * few ulp) with f evaluated by an independent segment search, and every segment with a strict sign change of y-t "
    "contains a returned point; otherwise exactly one point: a sample point with minimal |y-t|. Relation R-tam: threshold_at_metric(target, "
    "metric, points) passes to the inversion exactly (points, metric(points)) for points None (all scores, sorted) / int k (k evenly spaced "
    "points from min to max score) / array, for metrics by name and callable. W1 curves: random, lattice (plateaus at t, touching peaks/valleys), "
    "duplicate x with equal y, rounded, valleys/peaks within a few ulp of t; targets inside/outside the range, at knots. Non-trivial: the "
    "curve crosses some target; distinct = hash of inputs."
    ' Build-phase additions: integer curves of the order 1e10 with integer targets, amplitudes 1e-250..1e150, numpy-integer points.'
)
ASSUMPTIONS = ["x non-decreasing, duplicate x only with equal y, finite y", "Scores with >= 2 distinct scores for threshold_at_metric"]


def install(ctx):
    monitors.install_ipl(ctx.sess)
    ctx.sess.ipl_calls = []
    import sys

    U = sys.modules["score_analysis.utils"]
    cur = U.invert_pl_function  # the M-ipl wrapper; record what reaches it

    def recorder(*args, **kwargs):
        a = dict(zip(["x", "y", "t"], args))
        a.update(kwargs)
        ctx.sess.ipl_calls.append(a)
        return cur(*args, **kwargs)

    U.invert_pl_function = recorder
    ctx.sess._wrapped.append((U, "invert_pl_function", cur))


def cases(ctx):
    rng = ctx.rng
    nb = ctx.n(6000, 20000)
    for i in range(nb):
        if i in (nb // 3, 2 * nb // 3):  # two big problems per run: (samples x targets) beyond 2**20
            N = int(rng.integers(3000, 7000))
            T = int(rng.integers(300, 700))
            x = np.cumsum(rng.uniform(0.1, 1.0, N))
            y = np.cumsum(rng.normal(0, 1, N)) if i == nb // 3 else rng.normal(0, 1, N)  # random walk / white noise: many crossings
            yield {"mode": "curve", "kind": "large", "x": x, "y": y, "t": np.sort(rng.uniform(y.min() - 0.1, y.max() + 0.1, T)), "form": "array"}
            continue
        mode = "curve" if rng.random() < 0.93 else "tam"
        if mode == "curve":
            N = int(rng.integers(2, 13))
            kind = str(rng.choice(["random", "lattice", "dupx", "rounded", "ulp", "intdtype", "endtouch", "bigint"]))
            if kind == "random":
                x, y = np.sort(rng.normal(0, 1, N)), rng.normal(0, 1, N)
            elif kind == "lattice":
                x, y = np.arange(N).astype(float), rng.integers(0, 4, N).astype(float)
            elif kind == "dupx":
                x = np.sort(rng.integers(0, 6, N)).astype(float)
                y = rng.integers(0, 4, 7).astype(float)[x.astype(int)]
            elif kind == "intdtype":  # integer x and y (true division must not truncate)
                x, y = np.arange(N) * int(rng.integers(1, 4)), rng.integers(0, 5, N)
            elif kind == "bigint":  # integer counts/costs of the order of billions (a cost metric, counts beside 1e10 easy samples) with integer targets
                x = np.arange(N) * int(rng.integers(1, 4))
                y = rng.integers(-6 * 10 ** 9, 6 * 10 ** 9, N) if rng.random() < 0.5 else 10 ** 10 + np.cumsum(rng.integers(-3 * 10 ** 9, 3 * 10 ** 9, N))
            elif kind == "endtouch":  # the extreme value is reached only at the first / last sample
                x = np.sort(rng.uniform(0, 5, N))
                y = np.sort(rng.uniform(0, 1, N)) if rng.random() < 0.5 else np.sort(rng.uniform(0, 1, N))[::-1].copy()
            elif kind == "rounded":
                x, y = np.sort(rng.uniform(0, 1, N)), np.round(rng.uniform(0, 1, N), 1)
            else:  # valleys/peaks within a few ulp of a target
                x = np.arange(N).astype(float)
                y = rng.uniform(2, 3, N)
                t0 = 1.0
                for j in range(1, N - 1, 2):
                    k = int(rng.integers(-2, 3))
                    v = t0
                    for _ in range(abs(k)):
                        v = np.nextafter(v, np.inf if k > 0 else -np.inf)
                    y[j] = v
            if kind not in ("intdtype", "bigint") and rng.random() < 0.3:
                # the same curve at another amplitude / around an offset: consecutive samples closer than any fixed "closeness" tolerance
                amp, off = float(rng.choice([1e-9, 1e-8, 1e-6, 1e-3, 1e4, 1e-170, 1e-250, 1e150])), float(rng.choice([0.0, 0.0, 1.0, 1000.0]))
                if amp < 1e-100 or amp > 1e100:
                    off = 0.0  # amplitudes near the ends of the float range: around zero only (beside an offset they would not be representable)
                y = off + amp * np.asarray(y, dtype=float)
                kind = kind + "*amp"
            yf = np.asarray(y, dtype=float)
            amp_ = float(np.ptp(yf)) or 1.0
            ts = np.concatenate([rng.choice(yf, 2), rng.uniform(yf.min() - 0.5 * amp_, yf.max() + 0.5 * amp_, 3), [yf.min() - amp_, yf.max() + amp_, yf.min(), yf.max(), 1.0]]) if kind.endswith("*amp") else np.concatenate([rng.choice(yf, 2), rng.uniform(yf.min() - 0.5, yf.max() + 0.5, 3), [yf.min() - 1, yf.max() + 1, yf.min(), yf.max(), 1.0]])
            if kind == "bigint":  # integer targets: on the samples, between them, far outside
                yi = np.asarray(y, dtype=np.int64)
                ts = np.concatenate([rng.choice(yi, 3), rng.integers(int(yi.min()) - 5, int(yi.max()) + 5, 4), [int(yi.min()) - 4 * 10 ** 9, int(yi.max()) + 4 * 10 ** 9, int(yi.min()), int(yi.max())]]).astype(np.int64)
            ts = ts[rng.permutation(len(ts))]
            yield {"mode": "curve", "kind": kind, "x": x, "y": y, "t": ts, "form": str(rng.choice(["array", "array", "list", "scalar"]))}
        else:
            pos, neg, kind = gen.scores(rng, min_pos=1, min_neg=1, maxn=15, kinds=["gauss", "lattice", "uniform01", "pool5", "intdtype", "mixed_int_float", "mixed_f32_f64", "float32"])
            if len(np.unique(np.concatenate([np.asarray(pos, float), np.asarray(neg, float)]))) < 2:
                continue
            ep, en = gen.easy(rng, cap=20)
            sc, ec = gen.cfg(rng)
            yield {"mode": "tam", "kind": kind, "pos": pos, "neg": neg, "ep": ep, "en": en, "sc": sc, "ec": ec,
                   "metric": str(rng.choice(["fnr", "fpr", "topr", "tpr", "callable"])), "target": rng.uniform(0, 1, int(rng.integers(1, 4))),
                   "points": [None, int(rng.integers(2, 30)), "array"][int(rng.integers(0, 3))], "pts": np.sort(rng.normal(0, 2, int(rng.integers(2, 9)))),
                   "history": [round(float(w), 2) for w in rng.uniform(0, 1, int(rng.integers(0, 3)))], "_seed": int(rng.integers(1 << 31))}


def execute(ctx, case):
    from score_analysis import Scores
    from score_analysis import utils as U

    sess = ctx.sess
    if case["mode"] == "curve":
        x, y, ts = case["x"], case["y"], case["t"]
        form = case["form"]
        if form == "scalar":
            for tv in ts[:4].tolist():
                U.invert_pl_function(x, y, tv)  # judged by M-ipl
        elif form == "list":
            U.invert_pl_function(x.tolist(), y.tolist(), ts.tolist())
        else:
            U.invert_pl_function(x, y, ts)
        sess.sig_counts[("case", case["kind"], form)] += 1
        return bool(np.any((ts >= np.min(y)) & (ts <= np.max(y))) and len(np.unique(y)) > 1)
    s = Scores(case["pos"], case["neg"], nb_easy_pos=case["ep"], nb_easy_neg=case["en"], score_class=case["sc"], equal_class=case["ec"])
    metric = case["metric"]
    m = (lambda obj, thr: obj.fnr(thr) - 0.5 * obj.fpr(thr)) if metric == "callable" else metric
    points = case["pts"] if isinstance(case["points"], str) else case["points"]
    if isinstance(points, np.ndarray) and int(case["pts"].size) % 2:
        points = points.tolist()  # user-supplied points as a plain list
    target = case["target"]

    def weighted(w):  # closures from one factory: different metrics, one __qualname__
        return lambda obj, thr: w * obj.fnr(thr) + (1 - w) * obj.fpr(thr)

    # a history on one object: earlier searches with other metrics (same grid specification) must not influence a later one
    seq = [(weighted(w), "callable") for w in case.get("history", [])] + [(m, metric)]
    for m, metric in seq:
        _tam_once(sess, case, s, m, metric, points, target)
    sess.sig_counts[("case", "tam", metric, len(seq))] += 1
    return True


def _tam_once(sess, case, s, m, metric, points, target):
    sess.ipl_calls.clear()
    k_int = isinstance(points, (int, np.integer)) and not isinstance(points, bool)
    try:
        # "if a scalar, this many linearly spaced scores": the number of points may be a numpy integer (a computed count)
        res = s.threshold_at_metric(target, m, gen.int_form(case.get("_seed", 0), points) if k_int else points)  # the inversion itself is judged by M-ipl
    except (IndexError, TypeError) as e:
        sess.observe("R-tam")
        sess.check("R-tam", False, "threshold_at_metric raised for a documented points specification", lambda: {"points": repr(points), "form": type(gen.int_form(case.get("_seed", 0), points)).__name__, "exc": repr(e)},
                   sig=(metric, "int-form"), key="tam-points-raise")
        return
    sess.observe("R-tam")
    allv = np.sort(np.concatenate([np.asarray(s.pos, dtype=float), np.asarray(s.neg, dtype=float)]))
    if points is None:
        exp_pts = allv
    elif isinstance(points, int):
        exp_pts = np.array([allv[0] + (allv[-1] - allv[0]) * j / (points - 1) for j in range(points)])
        exp_pts[-1] = allv[-1]
    else:
        exp_pts = np.asarray(points, dtype=float)
    with monitors.oracle_scope_ctx():
        exp_y = np.asarray((m(s, exp_pts) if callable(m) else getattr(s, m)(exp_pts)), dtype=float)
    sig = (metric, "None" if points is None else "int" if isinstance(points, int) else "array", case["sc"], case["ec"])
    ok = len(sess.ipl_calls) == 1
    call = sess.ipl_calls[0] if ok else {}
    if ok:
        gx, gy = np.asarray(call["x"], dtype=float), np.asarray(call["y"], dtype=float)
        # interior grid points carry rounding in the precision the scores come in (a float32 grid for float32 scores)
        dts = [a_.dtype for a_ in (np.asarray(s.pos), np.asarray(s.neg)) if a_.dtype.kind == "f"]
        eps_ = max([float(np.finfo(d_).eps) for d_ in dts] + [float(np.finfo(float).eps)])  # the extremes may come from the narrower class
        ok = (gx.shape == exp_pts.shape and bool(np.all(np.abs(gx - exp_pts) <= (4 + len(exp_pts)) * eps_ * max(1.0, float(np.abs(exp_pts).max()) if exp_pts.size else 1.0)))  # i * step accumulates rounding along the grid
              and np.array_equal(np.asarray(call["t"]), target))
        if ok and isinstance(points, int):
            # "k evenly spaced points spanning the scores": the end points are the extreme scores themselves (the metric jumps there);
            # only the interior grid points carry rounding
            ok = bool(gx[0] == allv[0] and gx[-1] == allv[-1])
        if ok:
            with monitors.oracle_scope_ctx():
                y_at = np.asarray((m(s, gx) if callable(m) else getattr(s, m)(gx)), dtype=float)
            ok = np.array_equal(gy, y_at, equal_nan=True)
    sess.check("R-tam", ok, "threshold_at_metric does not invert the metric evaluated at the documented points",
               lambda: {"pos": case["pos"], "neg": case["neg"], "metric": metric, "points": points, "expected_points": exp_pts, "expected_y": exp_y,
                        "passed_x": call.get("x"), "passed_y": call.get("y")}, sig=sig, key="tam-points")
    sess.check("R-tam", isinstance(res, list) and len(res) == len(target), "threshold_at_metric: one entry per target expected", None, sig=sig, key="tam-len")
    sess.sig_counts[("case", "tam") + sig] += 1
