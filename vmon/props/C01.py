"""C01 — confusion matrix at a threshold equals counting by the documented decision rule."""

from __future__ import annotations

import itertools

import numpy as np

from .. import derive, gen, monitors

PID = "C01"
ANCHORS = ["scores.py:Scores.cm", "scores.py:Scores.__init__", "scores.py:pointwise_cm"]
RAISES_ARE_VIOLATIONS = True
DECIDING = {"M-cm": 593852, "M-pw": 15286, "R-pwsum": 7643}
QUICK_EXTRA = ["WX"]
THOROUGH_EXTRA = ["WX", "W2", "W3"]
RULE = (
    "W1: seeded cases (scores from 12 input classes incl. ties within/across classes, int/float32 dtypes, "
    "ulp-neighbours; easy counts; 4 configurations; thresholds at a score, +-1 ulp, between, outside, +-inf; "
    "shapes 0-d..3-d). Every Scores.cm call (also those made through the rate methods, from_labels objects, "
    "swap() and bootstrap traffic) is judged by M-cm against pure-Python counting over the constructor's unsorted "
    "inputs. WX enumerates all multisets of <=3+3 scores over {0,1,2} x easy {0,1,2}^2 x 4 cfg x 9 thresholds. "
    "A case is non-trivial if both classes are non-empty and some threshold lies within [min,max] of the scores; "
    "distinct = distinct hash of (scores, easy, cfg, thresholds)."
)
ASSUMPTIONS = [
    "finite scores, non-NaN thresholds",
    "NumPy elementwise comparison/tolist are trusted; the reference uses Python comparisons only",
    "bootstrap/ROC traffic: at most 64 thresholds per call are re-counted",
]
EXHAUSTIVE_SUBSPACE = "all multisets of <=3 pos and <=3 neg scores over {0,1,2}, easy counts {0,1,2}^2, 4 configurations, thresholds {-inf,-1,0,0+,1-,1,2,3,inf}"


def install(ctx):
    monitors.install_cm(ctx.sess)
    monitors.install_pointwise_cm(ctx.sess)


def cases(ctx):
    rng = ctx.rng
    for i in range(ctx.n(2200, 9000)):
        pos, neg, kind = gen.scores(rng, maxn=40, big=bool(ctx.tier == "thorough" and rng.random() < 0.05))
        ep, en = gen.easy(rng)
        sc, ec = gen.cfg(rng)
        allv = np.concatenate([np.asarray(pos, float), np.asarray(neg, float)])
        thr = gen.thresholds(rng, allv)
        shp = gen.shape(rng)
        mode = str(rng.choice(["vec", "vec", "shape", "scalar", "list", "longvec", "coarse", "coarse"]))
        form_ = None
        if mode == "coarse" and allv.size and float(np.abs(allv).max()) > 1e6:
            mode = "vec"  # integer grids only around scores of ordinary magnitude
        if mode == "coarse":
            # thresholds coarser than the scores: integer dtype (np.arange grids, Python ints, range) or float32/float16 next to float64 scores
            lo_, hi_ = (float(np.floor(allv.min())) - 1, float(np.ceil(allv.max())) + 1) if allv.size else (-1.0, 1.0)
            hi_ = min(hi_, lo_ + 40)
            form_ = str(rng.choice(["int64", "int32", "pyint", "range", "float32", "float16"]))
            if form_ in ("int64", "int32"):
                thr = np.arange(int(lo_), int(hi_) + 1).astype(form_)
            elif form_ == "pyint":
                thr = int(rng.integers(int(lo_), int(hi_) + 1))
            elif form_ == "range":
                thr = np.arange(int(lo_), int(hi_) + 1)  # handed over as a range object, see execute
            else:
                thr = thr.astype(form_)
        if mode == "longvec":  # a long 1-d vector in arbitrary order with repeats; ascending / descending variants too
            thr = rng.choice(thr, int(rng.choice([1000, 2500, 4096, 5000, 9000])) + int(rng.integers(0, 7)))
            o = int(rng.integers(0, 4))
            thr = thr if o in (0, 3) else np.sort(thr) if o == 1 else np.sort(thr)[::-1].copy()
            if o == 3:  # the same many thresholds as a 2-d grid
                thr = thr[: (len(thr) // 50) * 50].reshape(-1, 50)
        if mode == "shape":
            size = int(np.prod(shp)) if shp else 1
            thr = rng.choice(thr, size).reshape(shp) if size else np.zeros(shp)
        elif mode == "scalar":
            thr = float(thr[0])
        elif mode == "list":
            thr = [float(x) for x in thr[:5]]
        yield {
            "pos": pos, "neg": neg, "ep": ep, "en": en, "sc": sc, "ec": ec, "thr": thr, "kind": kind,
            "via": str(rng.choice(["ctor", "ctor", "from_labels", "swap2", "sorted", "boot_replacement", "boot_smoothing", "boot_single_pass", "boot_proportion",
                                   "boot_by_label", "group_item", "sample_swap", "replaced", "replaced", "relabelled", "relabelled"])),
            "_seed": int(rng.integers(1 << 31)),
            "coarse": form_, "pos_form": str(rng.choice(gen.FORMS)), "neg_form": str(rng.choice(gen.FORMS)), "thr_form": str(rng.choice(gen.FORMS)),
        }


def exhaustive(ctx):
    vals = [0.0, 1.0, 2.0]
    multisets = [list(c) for k in range(4) for c in itertools.combinations_with_replacement(vals, k)]
    thr = np.array([-np.inf, -1.0, 0.0, np.nextafter(0.0, 1), np.nextafter(1.0, 0), 1.0, 2.0, 3.0, np.inf])
    for pos in multisets:
        for neg in multisets:
            for ep, en in itertools.product([0, 1, 2], repeat=2):
                for sc, ec in gen.CFG:
                    yield {"pos": np.array(pos[::-1]), "neg": np.array(neg[::-1]), "ep": ep, "en": en, "sc": sc, "ec": ec,
                           "thr": thr, "kind": "lattice3", "via": "ctor"}


def scenarios(ctx):
    """W3: organic internal traffic (EER bisection, ROC with CI, bootstrap)."""
    rng = ctx.rng
    for i in range(ctx.n(6, 12)):
        pos, neg, kind = gen.scores(rng, min_pos=3, min_neg=3, maxn=60, kinds=["gauss", "lattice", "uniform01", "pool5"])
        ep, en = gen.easy(rng, cap=50)
        sc, ec = gen.cfg(rng)
        yield {"pos": pos, "neg": neg, "ep": ep, "en": en, "sc": sc, "ec": ec, "thr": np.array([0.0]), "kind": kind,
               "via": "traffic", "_seed": int(rng.integers(1 << 31))}


def execute(ctx, case):
    from score_analysis import BootstrapConfig, Scores, pointwise_cm, roc_with_ci

    sess = ctx.sess
    pos, neg = case["pos"], case["neg"]
    ep, en, sc, ec, thr = case["ep"], case["en"], case["sc"], case["ec"], case["thr"]
    via = case["via"]
    # same values, different containers / memory layouts (lists, tuples, read-only, strided, Fortran order)
    pos, neg = gen.apply_form(pos, case.get("pos_form")), gen.apply_form(neg, case.get("neg_form"))
    if case.get("coarse") == "range":
        thr = range(int(thr[0]), int(thr[-1]) + 1)
    elif case.get("coarse"):
        pass  # integer / narrow-float thresholds go in exactly as they are
    elif isinstance(thr, np.ndarray):
        thr = gen.apply_form(thr, case.get("thr_form"))
        if isinstance(thr, tuple):
            thr = list(thr)
    kw = derive.call_form(case.get("_seed", 0), dict(nb_easy_pos=ep, nb_easy_neg=en, score_class=sc, equal_class=ec))  # documented defaults may be left out
    if via == "from_labels":
        lab_pos = case.get("pos_label", 1)
        labels = np.concatenate([np.full(len(pos), lab_pos), np.zeros(len(neg), dtype=int)])
        allv = np.concatenate([np.asarray(pos), np.asarray(neg)]) if len(pos) + len(neg) else np.zeros(0)
        if len(allv) and case.get("_seed", 0) % 4 == 1:  # labels and scores of matching shape, not necessarily 1-d (a row vector / an (r, c) block)
            shp_ = (1, len(allv)) if len(allv) % 2 else (2, len(allv) // 2)
            labels, allv = labels.reshape(shp_), allv.reshape(shp_)
        s = Scores.from_labels(labels, allv, pos_label=lab_pos, **kw)
    elif via == "sorted":
        s = Scores(np.sort(np.asarray(pos)), np.sort(np.asarray(neg)), is_sorted=True, **kw)
    else:
        s = Scores(pos, neg, **kw)
    if via == "replaced":
        # a history on one object: it answered queries about other scores (other class sizes) before its score arrays were
        # replaced through the public attributes (what the FraudScores genuines/frauds setters do); sorted, as the class keeps them
        rs = np.random.default_rng(case.get("_seed", 0))
        s = Scores(rs.normal(0, 1, int(rs.integers(0, 9))), rs.normal(0, 1, int(rs.integers(0, 9))), **kw)
        s.cm(np.asarray(thr, dtype=float))
        s.tpr(0.0), s.fpr(0.0), s.nb_hard_pos, s.nb_all_neg, s.hard_pos_ratio
        s.pos, s.neg = np.sort(np.asarray(pos)), np.sort(np.asarray(neg))
    if via == "relabelled":
        # built under another configuration, queried, then the public label fields re-assigned with the plain strings the constructor accepts
        rs = np.random.default_rng(case.get("_seed", 0))
        o_sc, o_ec = gen.CFG[int(rs.integers(0, 4))]
        s = Scores(pos, neg, nb_easy_pos=ep, nb_easy_neg=en, score_class=o_sc, equal_class=o_ec)
        s.cm(np.asarray(thr, dtype=float))
        s.score_class, s.equal_class = str(sc), str(ec)
    if via == "swap2":
        s = s.swap().swap()  # library-made is_sorted=True objects; must be the same object semantically
    # objects the library derives itself (often with is_sorted=True): the decision-rule counting must hold on them too;
    # M-cm counts over the arrays each derived object was *constructed from*
    if via.startswith("boot_") or via == "sample_swap":
        if len(pos) == 0 or len(neg) == 0:
            return False
        np.random.seed(case.get("_seed", 0))
        if via in ("boot_smoothing", "boot_by_label", "sample_swap") and np.asarray(s.pos).dtype.kind != "f":
            s = Scores(np.asarray(s.pos, dtype=float), np.asarray(s.neg, dtype=float), **kw)  # smoothing only on float scores
        cfg = {"boot_replacement": BootstrapConfig(sampling_method="replacement"),
               "boot_smoothing": BootstrapConfig(sampling_method="dynamic", smoothing=True),
               "boot_single_pass": BootstrapConfig(sampling_method="single_pass"),
               "boot_proportion": BootstrapConfig(sampling_method="proportion", ratio=0.6),
               "boot_by_label": BootstrapConfig(sampling_method="replacement", stratified_sampling="by_label", smoothing=bool(case.get("_seed", 0) % 2)),
               "sample_swap": BootstrapConfig(sampling_method="replacement", smoothing=bool(case.get("_seed", 0) % 2))}[via]
        s = s.bootstrap_sample(cfg)
        if via == "sample_swap":
            s = s.swap()
        pos, neg, ep, en = np.asarray(s.pos), np.asarray(s.neg), int(s.nb_easy_pos), int(s.nb_easy_neg)
        sc, ec = monitors.cfg_of(s)
    elif via == "group_item":
        from score_analysis import GroupScores

        if len(pos) == 0 or len(neg) == 0:
            return False
        rs = np.random.default_rng(case.get("_seed", 0))
        gs = GroupScores(pos, neg, pos_groups=rs.choice(["a", "b"], len(pos)), neg_groups=rs.choice(["a", "b"], len(neg)), score_class=sc, equal_class=ec)
        g = str(rs.choice(list(gs.groups)))
        s = gs[g]
        pos, neg, ep, en = np.asarray(s.pos), np.asarray(s.neg), 0, 0
    if via == "traffic":
        np.random.seed(case["_seed"])
        if len(s.pos) and len(s.neg):
            s.eer()
            roc_with_ci(s, nb_points=7, config=BootstrapConfig(nb_samples=5))
            s.bootstrap_ci("fnr", config=BootstrapConfig(nb_samples=5, bootstrap_method="quantile"), threshold=np.asarray(thr))
        return True
    m = s.cm(thr)  # judged by M-cm
    s.confusion_matrix(thr)
    for name in ("tpr", "fnr", "tnr", "fpr", "topr", "tonr"):
        getattr(s, name)(thr)  # each goes through cm: judged again, via the public rate path

    # pointwise membership (M-pw) and its sum over samples (relation R-pwsum)
    tarr = np.asarray(thr, dtype=float)
    if len(pos) + len(neg) <= 30 and tarr.size <= 40:
        labels = np.concatenate([np.ones(len(pos), dtype=int), np.zeros(len(neg), dtype=int)])
        allv = np.concatenate([np.asarray(pos), np.asarray(neg)]) if len(pos) + len(neg) else np.zeros(0)
        try:
            pw = pointwise_cm(labels, allv, thr, **derive.call_form(case.get("_seed", 0), dict(score_class=sc, equal_class=ec)))
        except Exception as e:  # would be C10's business too; here it blocks the relation
            sess.check("R-pwsum", False, "pointwise_cm raised", lambda: {"exc": repr(e), "thr_shape": tarr.shape}, key="pw-raise")
        else:
            sm = pw.sum(axis=0).astype(int)
            sm[..., 0, 0] += ep
            sm[..., 1, 1] += en
            sess.observe("R-pwsum")
            sess.check("R-pwsum", np.array_equal(sm, m.matrix), "pointwise_cm summed over samples differs from cm",
                       lambda: {"sum": sm, "cm": m.matrix}, sig=(sc, ec, "pwsum"), key="pwsum")
    allf = np.concatenate([np.asarray(pos, float), np.asarray(neg, float)])
    nontrivial = bool(len(pos) and len(neg) and tarr.size and np.any((tarr >= allf.min()) & (tarr <= allf.max())))
    sess.sig_counts[("case", sc, ec, case["kind"], via, ep > 0, en > 0, tarr.ndim)] += 1
    return nontrivial
