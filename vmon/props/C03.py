"""C03 — extreme operating points (r <= 0, r >= 1) are honoured exactly."""

from __future__ import annotations

import itertools

import numpy as np

from .. import derive, gen, monitors

PID = "C03"
ANCHORS = ["scores.py:Scores._invert_increasing_function", "scores.py:Scores._threshold_at_ratio",
           "scores.py:Scores.threshold_at_tpr", "scores.py:Scores.threshold_at_fnr", "scores.py:Scores.threshold_at_tnr",
           "scores.py:Scores.threshold_at_fpr", "scores.py:Scores.threshold_at_topr", "scores.py:Scores.threshold_at_tonr"]
RAISES_ARE_VIOLATIONS = True
DECIDING = {"M-thr": 139860}
QUICK_EXTRA = []
THOROUGH_EXTRA = ["WX", "W2", "W3"]
RULE = (
    "Every threshold_at_* call (6 metrics + 6 aliases, 3 methods) is observed by M-thr; for each target element <= 0 or >= 1 the "
    "metric (computed by the same object) at the returned threshold must equal exactly its value at -inf/+inf, whichever is the "
    "lowest resp. highest achievable. W1: scores from 12 input classes incl. single scores, ties at the extremes, int/float32; "
    "easy counts incl. ratios whose rescaling does not round-trip in floating point (1/3, 1/7, 3/53); targets {-0.3, -1e-300, -0.0, 0, 1, "
    "1+2^-52, 1.7, random out-of-range} as scalars, lists and arrays. WX: all multisets of <=3+3 scores over {0,1,2} x easy {0,1,2}^2 x 4 cfg. "
    "Every case is non-trivial (relevant class non-empty); distinct = hash of (scores, easy, cfg, targets)."
    ' Build-phase additions: easy counts from 2**53 to 1e18, Fortran/transposed/3-d target grids, FraudScores views.'
)
ASSUMPTIONS = ["finite scores of moderate magnitude", "rates at a threshold are taken from the object's own rate methods (decided by C01)"]
EXHAUSTIVE_SUBSPACE = "all multisets of <=3 pos and <=3 neg scores over {0,1,2} (relevant class non-empty), easy {0,1,2}^2, 4 cfg, 6 metrics, 3 methods, targets {-0.3,-0.0,0,1,1.7}"

METRICS = ["tpr", "fnr", "tnr", "fpr", "topr", "tonr"]
ALIAS = {"tpr": "tar", "fnr": "frr", "tnr": "trr", "fpr": "far", "topr": "acceptance_rate", "tonr": "rejection_rate"}
EXTREME = np.array([-0.3, 0.0, 1.0, 1.7, -0.0, 1.0 + 2.0 ** -52, -1e-300, -5e-324, 1e9])


def install(ctx):
    monitors.install_thr(ctx.sess, facets={"extreme"})


def cases(ctx):
    rng = ctx.rng
    for i in range(ctx.n(900, 4000)):
        pos, neg, kind = gen.scores(rng, min_pos=1, min_neg=1, maxn=40, big=bool(ctx.tier == "thorough" and rng.random() < 0.08))
        if rng.random() < 0.25:  # tiny sources: N = 1, 2, 3
            pos = pos[: int(rng.integers(1, 4))]
            neg = neg[: int(rng.integers(1, 4))]
        if rng.random() < 0.3:  # easy ratios that do not round-trip: hard ratio 1/3, 1/7, 3/53, ...
            ep = int(rng.choice([2, 6, 50, 13])) * len(pos) if rng.random() < 0.5 else int(rng.choice([1, 2, 5, 17]))
            en = int(rng.choice([2, 6, 50, 13])) * len(neg) if rng.random() < 0.5 else int(rng.choice([1, 2, 5, 17]))
        else:
            ep, en = gen.easy(rng)
        if i % 6 == 3:
            # "any number of easy samples": counts that float64 no longer represents exactly (2**53 and beyond); an extreme target must
            # still be honoured exactly, since it does not depend on how the intermediate rates round
            astro = [2 ** 53, 2 ** 53 + 1, 2 ** 53 + 3, 2 ** 54 - 1, 10 ** 16, 10 ** 16 + 1, 10 ** 17, 3 * 10 ** 17, 10 ** 18]
            if rng.random() < 0.7:
                ep = int(rng.choice(astro))
            if rng.random() < 0.7:
                en = int(rng.choice(astro))
            kind = kind + "+astro"
        sc, ec = gen.cfg(rng)
        via = str(rng.choice(derive.VIAS))
        if rng.random() < 0.08:  # bounded scores saturated at the ends of [0, 1], seen through the FraudScores subclass
            pos, neg = np.round(rng.uniform(0, 1, len(pos)), 2), np.round(rng.uniform(0, 1, len(neg)), 2)
            for arr in (pos, neg):
                if rng.random() < 0.7:
                    arr[int(rng.integers(0, len(arr)))] = float(rng.choice([0.0, 1.0]))
            ec, via, kind = "pos", "fraud_view", "unit-saturated"
        extra = np.array([float(rng.uniform(-2, 0)), float(rng.uniform(1, 3)), float(rng.uniform(0, 1))])
        yield {"pos": pos, "neg": neg, "ep": ep, "en": en, "sc": sc, "ec": ec, "kind": kind,
               "targets": np.concatenate([EXTREME, extra]), "form": str(rng.choice(["array", "array", "scalar", "list", "2d", "pyint", "intarray", "0d"])),
               "via": via, "_seed": int(rng.integers(1 << 31))}


def exhaustive(ctx):
    vals = [0.0, 1.0, 2.0]
    multisets = [list(c) for k in range(1, 4) for c in itertools.combinations_with_replacement(vals, k)]
    t = np.array([-0.3, -0.0, 0.0, 1.0, 1.7])
    for pos in multisets:
        for neg in multisets:
            for ep, en in itertools.product([0, 1, 2], repeat=2):
                for sc, ec in gen.CFG:
                    yield {"pos": np.array(pos), "neg": np.array(neg), "ep": ep, "en": en, "sc": sc, "ec": ec, "kind": "lattice3",
                           "targets": t, "form": "array"}


def scenarios(ctx):
    rng = ctx.rng
    for i in range(ctx.n(4, 10)):
        pos, neg, kind = gen.scores(rng, min_pos=3, min_neg=3, maxn=50, kinds=["gauss", "lattice", "uniform01"])
        ep, en = gen.easy(rng, cap=50)
        sc, ec = gen.cfg(rng)
        yield {"pos": pos, "neg": neg, "ep": ep, "en": en, "sc": sc, "ec": ec, "kind": kind, "targets": EXTREME, "form": "traffic",
               "_seed": int(rng.integers(1 << 31))}


def execute(ctx, case):
    from score_analysis import BootstrapConfig, Scores, roc, roc_with_ci

    with monitors.oracle_scope_ctx():  # the warm-up queries of a history are not part of what is judged here
        s = derive.build(case["pos"], case["neg"], case["ep"], case["en"], case["sc"], case["ec"], case.get("via", "ctor"), case.get("_seed", 0))
    tg = case["targets"]
    form = case["form"]
    if form == "traffic":
        np.random.seed(case["_seed"])
        s.eer()
        roc(s, nb_points=11)
        roc_with_ci(s, nb_points=6, config=BootstrapConfig(nb_samples=4))
        return True
    for m in METRICS:
        for method in ("linear", "lower", "higher"):
            fn = getattr(s, "threshold_at_" + m)
            if form == "scalar":
                for r in tg[:6].tolist():
                    fn(r, method=method)
            elif form == "pyint":  # targets given as Python ints
                for r in (0, 1, -1, 2):
                    fn(r, method=method)
            elif form == "intarray":
                fn(np.array([0, 1, 1, 0, 2, -3]), method=method)
            elif form == "0d":
                for r in tg[:5].tolist():
                    fn(np.asarray(r), method=method)
            elif form == "list":
                fn(tg.tolist(), method=method)
            elif form == "2d":
                g2 = np.resize(tg, (2, 6))
                fn(g2, method=method)
                # the same grid of targets in other memory layouts (Fortran order, a transposed view, a 3-d transposed block): M-thr judges every element
                fn(np.asfortranarray(g2), method=method)
                fn(np.ascontiguousarray(g2.T).T, method=method)
                fn(np.resize(tg, (2, 3, 2)).transpose(2, 0, 1), method=method)
            else:
                fn(tg, method=method)
        getattr(s, "threshold_at_" + ALIAS[m])(tg)  # alias path
    ctx.sess.sig_counts[("case", case["sc"], case["ec"], case["kind"], form, case["ep"] > 0, case["en"] > 0)] += 1
    return True
