"""Runtime-monitoring framework for score-analysis (see /verif/DESIGN.md)."""
