"""
Verdict, known-findings handling, evidence file and the VIOLATION / KNOWN-FINDING /
INCONCLUSIVE lines.
"""

from __future__ import annotations

import importlib
import json
import os

from . import codec, findings

VERIF_ROOT = os.path.dirname(os.path.dirname(os.path.abspath(__file__)))
# Where evidence/ and replays/ are written; bin/selftest-mutants redirects it so that runs
# against deliberately broken scratch copies never overwrite the real evidence.
OUT_ROOT = os.environ.get("VERIF_OUT", VERIF_ROOT)


def _write_replay(pid, v):
    d = os.path.join(OUT_ROOT, "replays", pid)
    os.makedirs(d, exist_ok=True)
    h = codec.short_hash({k: v.get(k) for k in ("monitor", "key", "case", "detail")})
    path = os.path.join(d, f"{h}.json")
    with open(path, "w") as f:
        json.dump(v, f, indent=1, default=str)
    return path


def finish(pid, tier, seed, merged, problems, wall_s, replay_mode=False):
    mod = importlib.import_module(f"vmon.props.{pid}")
    lines = []
    reasons = list(problems) + list(merged["driver_errors"])
    if merged["oracle_errors"]:
        reasons.append("oracle_error: " + merged["oracle_errors"][0].splitlines()[0])

    # ---- classify violations against the committed known-findings file ------------
    known = findings.known_for(pid)
    real, known_hits = [], {}
    for v in merged["violations"]:
        key = findings.classify(pid, v)
        if key is not None and key in known:
            known_hits[key] = known_hits.get(key, 0) + 1
        else:
            real.append(v)
    # violations beyond the stored ones (bounded per key) still count
    stored_keys = {f"{v['monitor']}|{v['key']}" for v in merged["violations"]}
    nb_violated = sum(m["violated"] for m in merged["monitors"].values())

    # ---- witnesses of known findings: shown on every run ----------------------------
    if not replay_mode:
        from . import runner

        for key, entry in known.items():
            w = entry.get("witness_case")
            reproduced = None
            if w is not None:
                res = runner.run_shard(pid, tier, seed, 0, 1, "witness", replay=w)
                ks = {findings.classify(pid, v) for v in res["violations"]}
                other = [v for v in res["violations"] if findings.classify(pid, v) != key]
                reproduced = key in ks
                if res["driver_error"] or res["oracle_errors"]:
                    reasons.append(f"witness of known finding {key} failed to run: {res['driver_error'] or res['oracle_errors'][0]}")
                real.extend(other)
            if reproduced or (reproduced is None and known_hits.get(key)):
                lines.append(f"KNOWN-FINDING: property={pid} {key}: {entry['what']}")
            else:
                lines.append(f"note: known finding {key} of {pid} did not reproduce on this tree")

    # ---- inconclusive conditions ------------------------------------------------------
    if not replay_mode:
        anchors = getattr(mod, "ANCHORS", [])
        for a in anchors:
            if merged["reached"].get(a, 0) == 0:
                reasons.append(f"anchored function never entered: {a}")
        for mon, minimum in getattr(mod, "DECIDING", {}).items():
            got = merged["monitors"].get(mon, {}).get("in_scope", 0)
            need = minimum if tier == "quick" else minimum
            if got < need:
                reasons.append(f"deciding monitor {mon} took {got} decisions (< {need})")
        if merged["distinct"] < 2:
            reasons.append(f"only {merged['distinct']} distinct non-trivial cases")

    # ---- evidence ----------------------------------------------------------------------
    oracle_decisions = sum(m["in_scope"] for m in merged["monitors"].values())
    anchors = getattr(mod, "ANCHORS", [])
    ev = {
        "property_id": pid,
        "tier": tier,
        "seed": int(seed),
        "level": "exploration",
        "coverage": {
            "evaluations": int(merged["executed"]),
            "distinct_nontrivial": int(merged["distinct"]),
            "rule": getattr(mod, "RULE", ""),
            "samples": merged["samples"] or [],
            "exhaustive": False,
            "oracle_decisions": int(oracle_decisions),
            "monitors": merged["monitors"],
            "decisions_by_facet": {k: int(v) for k, v in sorted(merged.get("facets", {}).items())},
            "nontrivial_cases": int(merged["nontrivial"]),
            "trivial_cases": int(merged["trivial"]),
            "distinct_class_signatures": len(merged["sigs"]),
            "class_signatures_top": {k: int(n) for k, n in merged["sigs"].most_common(40)},
            "functions_reached": {a: int(merged["reached"].get(a, 0)) for a in anchors},
            "repo_functions_entered": len([k for k, n in merged["reached"].items() if n]),
            "workloads": merged["workloads"],
            "notes": merged["notes"],
            "known_finding_hits": known_hits,
            "exhaustive_subspace": getattr(mod, "EXHAUSTIVE_SUBSPACE", None) if tier == "thorough" or "WX" in getattr(mod, "QUICK_EXTRA", []) else None,
        },
        "assumptions": getattr(mod, "ASSUMPTIONS", []),
        "wall_s": round(wall_s, 2),
        "violations": int(len(real)),
    }
    if not replay_mode:
        os.makedirs(os.path.join(OUT_ROOT, "evidence"), exist_ok=True)
        path = os.path.join(OUT_ROOT, "evidence", f"{pid}.json")
        if not ev["coverage"]["samples"]:
            ev["coverage"]["samples"] = [{"note": "no non-trivial case was executed"}]
        with open(path, "w") as f:
            json.dump(ev, f, indent=1, default=str)
            f.write("\n")

    # ---- verdict -----------------------------------------------------------------------
    for ln in lines:
        print(ln)
    mons = ", ".join(f"{k}:{v['held']}/{v['in_scope']}" for k, v in merged["monitors"].items())
    print(
        f"[{pid} {tier} seed={seed}] cases={merged['executed']} distinct_nontrivial={merged['distinct']} "
        f"oracle_decisions={oracle_decisions} classes={len(merged['sigs'])} wall={wall_s:.1f}s"
    )
    print(f"[{pid}] monitors held/in_scope: {mons}")
    if real:
        seen = set()
        for v in real:
            k = (v["monitor"], v["key"])
            if k in seen:
                continue
            seen.add(k)
            path = _write_replay(pid, v)
            print(f"  violated {v['monitor']} / {v['what']}: {json.dumps(v['detail'], default=str)[:600]}")
            print(f"VIOLATION property={pid} replay={path}")
        return 1
    if nb_violated and not merged["violations"]:
        reasons.append("violations counted but none stored")
    if reasons:
        for r in reasons[:6]:
            print(f"INCONCLUSIVE property={pid} reason={r}")
        return 2
    print(f"[{pid}] held on everything observed" + (f" (known findings matched: {known_hits})" if known_hits else ""))
    return 0
