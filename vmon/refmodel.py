"""
Reference models, independent of the mechanisms under test: Python ints, Fractions,
math.fsum, statistics.NormalDist and hand-written order statistics. No np.searchsorted,
np.nanquantile, scipy.stats.norm or np.trapezoid in here.
"""

from __future__ import annotations

import math
import operator
from fractions import Fraction
from statistics import NormalDist

_ND = NormalDist()

_CMP = {
    ("pos", "pos"): operator.ge,
    ("pos", "neg"): operator.gt,
    ("neg", "pos"): operator.le,
    ("neg", "neg"): operator.lt,
}


def count_cm(pos, neg, t, sc, ec, ep=0, en=0):
    """Confusion matrix by the documented decision rule; pos/neg python lists."""
    f = _CMP[(sc, ec)]
    tp = 0
    for s in pos:
        if f(s, t):
            tp += 1
    fp = 0
    for s in neg:
        if f(s, t):
            fp += 1
    return [[tp + ep, len(pos) - tp], [fp, len(neg) - fp + en]]


RATE_CELLS = {
    # name: (numerator cells, denominator cells), cells as (row, col) of [[tp, fn], [fp, tn]]
    "tpr": (((0, 0),), ((0, 0), (0, 1))),
    "fnr": (((0, 1),), ((0, 0), (0, 1))),
    "tnr": (((1, 1),), ((1, 0), (1, 1))),
    "fpr": (((1, 0),), ((1, 0), (1, 1))),
    "topr": (((0, 0), (1, 0)), ((0, 0), (0, 1), (1, 0), (1, 1))),
    "tonr": (((0, 1), (1, 1)), ((0, 0), (0, 1), (1, 0), (1, 1))),
    "ppv": (((0, 0),), ((0, 0), (1, 0))),
    "fdr": (((1, 0),), ((0, 0), (1, 0))),
    "npv": (((1, 1),), ((0, 1), (1, 1))),
    "for_": (((0, 1),), ((0, 1), (1, 1))),
    "accuracy": (((0, 0), (1, 1)), ((0, 0), (0, 1), (1, 0), (1, 1))),
    "error_rate": (((0, 1), (1, 0)), ((0, 0), (0, 1), (1, 0), (1, 1))),
}
RATE_CELLS["tar"] = RATE_CELLS["tpr"]
RATE_CELLS["frr"] = RATE_CELLS["fnr"]
RATE_CELLS["trr"] = RATE_CELLS["tnr"]
RATE_CELLS["far"] = RATE_CELLS["fpr"]
RATE_CELLS["acceptance_rate"] = RATE_CELLS["topr"]
RATE_CELLS["rejection_rate"] = RATE_CELLS["tonr"]


def rate_numden(name, m):
    num_c, den_c = RATE_CELLS[name]
    num = sum(m[r][c] for r, c in num_c)
    den = sum(m[r][c] for r, c in den_c)
    return num, den


def rate(name, m):
    num, den = rate_numden(name, m)
    return num / den if den != 0 else math.nan


# ------------------------------------------------------------------------- normal dist


def ppf(p):
    if p != p:
        return math.nan
    if p <= 0:
        return -math.inf
    if p >= 1:
        return math.inf
    return _ND.inv_cdf(p)


def cdf(z):
    if z != z:
        return math.nan
    if z == -math.inf:
        return 0.0
    if z == math.inf:
        return 1.0
    return _ND.cdf(z)


# --------------------------------------------------------------------------- quantiles


def quantile_sorted(v, q):
    """Linear-interpolation empirical quantile (NumPy's default definition) of sorted v."""
    if not v or q != q:
        return math.nan
    pos = q * (len(v) - 1)
    lo = math.floor(pos)
    hi = min(lo + 1, len(v) - 1)
    fr = pos - lo
    return v[lo] + (v[hi] - v[lo]) * fr


def bootstrap_ci(theta, that, alpha, method):
    """theta: python list of floats (one metric component). Returns (lower, upper)."""
    fin = sorted(x for x in theta if x == x)
    al, au = alpha / 2, 1 - alpha / 2
    if method == "quantile":
        return quantile_sorted(fin, al), quantile_sorted(fin, au)
    if not fin:
        return math.nan, math.nan
    p0 = sum(1 for x in fin if x <= that) / len(fin)
    z0 = ppf(p0)
    zl, zu = ppf(al), ppf(au)
    if method == "bc":
        a1, a2 = cdf(2 * z0 + zl), cdf(2 * z0 + zu)
    elif method == "bca":
        num = math.fsum((x - that) ** 3 for x in fin)
        den = 6 * math.fsum((x - that) ** 2 for x in fin) ** 1.5
        a = num / den if den != 0 else 0.0
        if math.isinf(z0) or z0 != z0:
            a1 = a2 = cdf(z0)
        else:
            sl = z0 + zl
            su = z0 + zu
            a1 = cdf(z0 + sl / (1 - a * sl)) if (1 - a * sl) != 0 else math.nan
            a2 = cdf(z0 + su / (1 - a * su)) if (1 - a * su) != 0 else math.nan
    else:
        raise ValueError(method)
    return quantile_sorted(fin, a1), quantile_sorted(fin, a2)


def bca_pole_margin(theta, that, alpha):
    """min over both tails of 1 - |a*(z0+z_alpha)|; > 0 means both tails on one side of the pole."""
    fin = [x for x in theta if x == x]
    if not fin:
        return math.nan
    p0 = sum(1 for x in fin if x <= that) / len(fin)
    z0 = ppf(p0)
    if math.isinf(z0):
        return 1.0
    num = math.fsum((x - that) ** 3 for x in fin)
    den = 6 * math.fsum((x - that) ** 2 for x in fin) ** 1.5
    a = num / den if den != 0 else 0.0
    return min(1 - abs(a * (z0 + ppf(alpha / 2))), 1 - abs(a * (z0 + ppf(1 - alpha / 2))))


# --------------------------------------------------------------------------------- AUC


def mann_whitney(pos, neg, ep, en, sc):
    """P(pos ranked on the positive side of neg) + P(tie)/2; easy samples beyond all."""
    P = len(pos) + ep
    N = len(neg) + en
    wins = 0
    ties = 0
    pos_high = sc == "pos"
    for p in pos:
        for q in neg:
            if p == q:
                ties += 1
            elif (p > q) == pos_high:
                wins += 1
    wins += ep * N + en * len(pos)
    return (Fraction(wins) + Fraction(ties, 2)) / (P * N)


def mann_whitney_large(pos, neg, ep, en, sc):
    """The same statistic for large classes: exact integer counting by binary search instead of the pair loop."""
    import numpy as _np

    p_ = _np.sort(_np.asarray(pos, dtype=float))
    n_ = _np.sort(_np.asarray(neg, dtype=float))
    lo = _np.searchsorted(n_, p_, side="left")
    hi = _np.searchsorted(n_, p_, side="right")
    ties = int((hi - lo).sum())
    below = int(lo.sum())  # negatives strictly below each positive
    wins = below if sc == "pos" else len(p_) * len(n_) - below - ties
    P = len(p_) + ep
    N = len(n_) + en
    wins += ep * N + en * len(p_)
    return (Fraction(wins) + Fraction(ties, 2)) / (P * N)


def step_area(pos, neg, ep, en, sc, lower, upper):
    """Exact area under the empirical step ROC (x=FPR, y=TPR) over [lower, upper];
    valid when no value is shared between the classes."""
    P = len(pos) + ep
    N = len(neg) + en
    items = [(float(p), 1) for p in pos] + [(float(q), 0) for q in neg]
    items.sort(key=lambda z: z[0], reverse=(sc == "pos"))
    # runs (label, multiplicity): the easy samples are runs of any length (millions), never materialised
    runs = [(1, ep)] + [(z[1], 1) for z in items] + [(0, en)]
    x = Fraction(0)
    y = Fraction(0)
    area = Fraction(0)
    lo = Fraction(lower)
    up = Fraction(upper)
    for lab, cnt in runs:
        if cnt == 0:
            continue
        if lab == 1:
            y += Fraction(cnt, P)
        else:
            a = max(x, lo)
            b = min(x + Fraction(cnt, N), up)
            if b > a:
                area += (b - a) * y
            x += Fraction(cnt, N)
    return area


# ------------------------------------------------------------------ piecewise linear


def pl_eval(x, y, s):
    """Value(s) of the piecewise-linear interpolant at s by explicit segment search.
    With duplicate x (equal y assumed) any matching segment gives the same value."""
    n = len(x)
    if s <= x[0]:
        return y[0]
    if s >= x[-1]:
        return y[-1]
    lo, hi = 0, n - 1
    while hi - lo > 1:
        mid = (lo + hi) // 2
        if x[mid] <= s:
            lo = mid
        else:
            hi = mid
    if x[hi] == x[lo]:
        return y[lo]
    w = (s - x[lo]) / (x[hi] - x[lo])
    return y[lo] + (y[hi] - y[lo]) * w


# ------------------------------------------------------------------------ rectangles


def aggregate_rectangles(x, dxp, dyp):
    """Envelope of all rectangles whose x-interval contains x[i] (own rectangle included)."""
    out = []
    n = len(x)
    for i in range(n):
        lo, hi = dyp[i][0], dyp[i][1]
        for j in range(n):
            if dxp[j][0] <= x[i] <= dxp[j][1]:
                lo = min(lo, dyp[j][0])
                hi = max(hi, dyp[j][1])
        out.append([lo, hi])
    return out


def ulps(x, k=4):
    """(x - k ulp, x + k ulp) as floats."""
    a = b = float(x)
    for _ in range(k):
        a = math.nextafter(a, -math.inf)
        b = math.nextafter(b, math.inf)
    return a, b
