"""
Monitor layer: wraps real library functions in place, counts what each monitor saw,
keeps a bounded event log and the violations found.

A monitor never raises into the code under observation: violations are collected and
reported when the run ends. An exception inside an oracle is an ``oracle_error`` and
makes the run *inconclusive*, never held.
"""

from __future__ import annotations

import collections
import functools
import threading
import traceback

from . import codec

_tls = threading.local()


def in_oracle() -> bool:
    return getattr(_tls, "depth", 0) > 0


class _OracleScope:
    def __enter__(self):
        _tls.depth = getattr(_tls, "depth", 0) + 1

    def __exit__(self, *exc):
        _tls.depth -= 1
        return False


oracle_scope = _OracleScope


class MonitorStats:
    __slots__ = ("name", "calls", "in_scope", "held", "violated", "skipped", "oracle_error", "skip_reasons")

    def __init__(self, name):
        self.name = name
        self.calls = 0  # times the wrapped function / driver relation was observed
        self.in_scope = 0  # oracle decisions taken
        self.held = 0
        self.violated = 0
        self.skipped = 0  # observed but outside the property's quantifier
        self.oracle_error = 0
        self.skip_reasons = collections.Counter()

    def as_dict(self):
        d = {k: getattr(self, k) for k in ("calls", "in_scope", "held", "violated", "skipped", "oracle_error")}
        if self.skip_reasons:
            d["skip_reasons"] = dict(self.skip_reasons.most_common(8))
        return d


class Session:
    """All monitoring state of one process (one shard of one check)."""

    MAX_VIOLATIONS_PER_KEY = 3
    MAX_VIOLATIONS = 400

    def __init__(self, pid: str):
        self.pid = pid
        self.monitors: dict[str, MonitorStats] = {}
        self.events = collections.deque(maxlen=60)
        self.violations: list[dict] = []
        self._viol_keys = collections.Counter()
        self._stored_keys = collections.Counter()
        self.facet_counts = collections.Counter()  # (monitor, key) -> oracle decisions taken, held or not
        self.oracle_errors: list[str] = []
        self.case_errors: list[str] = []
        self.sig_counts = collections.Counter()  # class signature -> evaluations
        self.case_hashes: set[int] = set()  # distinct non-trivial cases
        self.nontrivial = 0
        self.trivial = 0
        self.samples: list = []
        self.current_case = None  # encoded case dict being executed (for replay)
        self.current_case_info = None
        self._wrapped: list = []
        self.notes = collections.Counter()

    # -- counters -----------------------------------------------------------------
    def mon(self, name: str) -> MonitorStats:
        m = self.monitors.get(name)
        if m is None:
            m = self.monitors[name] = MonitorStats(name)
        return m

    def observe(self, monitor: str):
        self.mon(monitor).calls += 1

    def skip(self, monitor: str, reason: str = ""):
        m = self.mon(monitor)
        m.skipped += 1
        if reason:
            m.skip_reasons[reason] += 1

    def check(self, monitor: str, ok, what: str, detail=None, sig=None, key=None):
        """
        One oracle decision. ``detail`` may be a callable building the (JSON-able)
        witness lazily. ``key`` groups violations of one mechanism (default: what).
        Returns bool(ok).
        """
        m = self.mon(monitor)
        m.in_scope += 1
        self.facet_counts[(monitor, key if key is not None else (what or "-"))] += 1
        if sig is not None:
            self.sig_counts[sig] += 1
        if ok:
            m.held += 1
            return True
        m.violated += 1
        k = (monitor, key if key is not None else what)
        self._viol_keys[k] += 1
        if self._viol_keys[k] <= 60 and len(self.violations) < self.MAX_VIOLATIONS:
            try:
                d = detail() if callable(detail) else detail
            except Exception as e:  # pragma: no cover
                d = {"detail_error": repr(e)}
            v = {
                "property": self.pid,
                "monitor": monitor,
                "what": what,
                "key": key if key is not None else what,
                "detail": codec.readable(d, maxlen=64),
                "case": None,
                "case_info": self.current_case_info,
            }
            # Instances of a listed known finding must not crowd out other violations that share the same key:
            # the per-key cap is applied separately to each known-finding class (and to "not known").
            from . import findings

            k2 = k + (findings.classify(self.pid, v),)
            self._stored_keys[k2] += 1
            if self._stored_keys[k2] <= self.MAX_VIOLATIONS_PER_KEY:
                v["case"] = self.current_case.encoded() if hasattr(self.current_case, "encoded") else self.current_case
                self.violations.append(v)
                self.events.append({"monitor": monitor, "verdict": "violated", "what": what})
        return False

    def held_bulk(self, monitor: str, n: int, sig=None):
        m = self.mon(monitor)
        m.in_scope += n
        m.held += n
        if sig is not None:
            self.sig_counts[sig] += n

    def oracle_failed(self, monitor: str, exc: BaseException):
        self.mon(monitor).oracle_error += 1
        if len(self.oracle_errors) < 10:
            self.oracle_errors.append(
                f"{monitor}: {type(exc).__name__}: {exc}\n" + "".join(traceback.format_tb(exc.__traceback__)[-4:])
            )

    def event(self, monitor, **kw):
        self.events.append({"monitor": monitor, **kw})

    def count_case(self, case_hash: int, nontrivial: bool, sample=None):
        if nontrivial:
            self.nontrivial += 1
            if len(self.case_hashes) < 3_000_000:
                self.case_hashes.add(case_hash)
        else:
            self.trivial += 1
        if sample is not None and len(self.samples) < 6 and nontrivial:
            self.samples.append(sample)

    # -- wrapping -----------------------------------------------------------------
    def wrap(self, owner, name: str, monitor: str, post, pre=None, on_exc=None):
        """
        Replace ``owner.name`` by a wrapper that runs ``pre(args, kwargs)`` (snapshot),
        the original, then ``post(snapshot, args, kwargs, result)`` under the oracle
        scope. Calls made *by an oracle* are passed through unjudged.
        """
        raw = owner.__dict__[name] if isinstance(owner, type) else getattr(owner, name)
        is_static = isinstance(raw, staticmethod)
        orig = raw.__func__ if is_static else raw
        sess = self

        @functools.wraps(orig)
        def wrapper(*args, **kwargs):
            if in_oracle():
                return orig(*args, **kwargs)
            sess.mon(monitor).calls += 1
            snap = None
            if pre is not None:
                try:
                    with oracle_scope():
                        snap = pre(args, kwargs)
                except Exception as e:
                    sess.oracle_failed(monitor, e)
            try:
                res = orig(*args, **kwargs)
            except Exception as e:
                if on_exc is not None:
                    try:
                        with oracle_scope():
                            on_exc(snap, args, kwargs, e)
                    except Exception as e2:
                        sess.oracle_failed(monitor, e2)
                raise
            try:
                with oracle_scope():
                    post(snap, args, kwargs, res)
            except Exception as e:
                sess.oracle_failed(monitor, e)
            return res

        wrapper.__vmon_orig__ = orig
        setattr(owner, name, staticmethod(wrapper) if is_static else wrapper)
        self._wrapped.append((owner, name, raw))
        return orig

    def unwrap_all(self):
        for owner, name, raw in reversed(self._wrapped):
            setattr(owner, name, raw)
        self._wrapped.clear()

    # -- summary ------------------------------------------------------------------
    def summary(self) -> dict:
        return {
            "monitors": {k: v.as_dict() for k, v in sorted(self.monitors.items())},
            "violations": self.violations,
            "violation_keys": {f"{a}|{b}": n for (a, b), n in self._viol_keys.items()},
            "oracle_errors": self.oracle_errors,
            "sig_counts": {str(k): n for k, n in self.sig_counts.most_common(400)},
            "nb_sigs": len(self.sig_counts),
            "nontrivial": self.nontrivial,
            "trivial": self.trivial,
            "samples": self.samples,
            "events_tail": list(self.events),
            "notes": dict(self.notes),
            "facet_counts": {f"{a}|{b}": n for (a, b), n in self.facet_counts.items()},
        }
