"""
Serialisation of cases (inputs of one monitored execution) to JSON-able dicts and
back, exactly: a replay must rebuild *the same* Python/NumPy values, including the
distinction between Python scalars, NumPy scalars, 0-d arrays, lists and arrays
(the library branches on np.isscalar) and dtypes.
"""

from __future__ import annotations

import hashlib
import json
import math

import numpy as np


def enc(v):
    """Encode a value into a JSON-able structure (lossless for what we generate)."""
    if v is None or isinstance(v, (bool, str)):
        return v
    if isinstance(v, int):
        return v
    if isinstance(v, float):
        return {"__f__": v.hex()}
    if isinstance(v, np.ndarray):
        if v.dtype.kind in "fc":
            data = [x.hex() for x in v.astype(float).ravel().tolist()]
        elif v.dtype.kind in "iub":
            data = v.ravel().tolist()
        else:
            data = [str(x) for x in v.ravel().tolist()]
        return {"__nd__": data, "dtype": str(v.dtype), "shape": list(v.shape)}
    if isinstance(v, np.generic):
        return {"__ns__": enc(np.asarray(v))}
    if isinstance(v, (list, tuple)):
        return {"__seq__": [enc(x) for x in v], "tuple": isinstance(v, tuple)}
    if isinstance(v, dict):
        return {"__dict__": {str(k): enc(x) for k, x in v.items()}}
    raise TypeError(f"cannot encode {type(v)}")


def dec(v):
    if v is None or isinstance(v, (bool, str, int)):
        return v
    if isinstance(v, float):  # tolerated for hand-written replay files
        return v
    if isinstance(v, list):
        return [dec(x) for x in v]
    if isinstance(v, dict):
        if "__f__" in v:
            return float.fromhex(v["__f__"])
        if "__nd__" in v:
            dt = np.dtype(v["dtype"])
            if dt.kind in "fc":
                data = [float.fromhex(x) for x in v["__nd__"]]
            else:
                data = v["__nd__"]
            return np.array(data, dtype=dt).reshape(v["shape"])
        if "__ns__" in v:
            return dec(v["__ns__"])[()]
        if "__seq__" in v:
            seq = [dec(x) for x in v["__seq__"]]
            return tuple(seq) if v.get("tuple") else seq
        if "__dict__" in v:
            return {k: dec(x) for k, x in v["__dict__"].items()}
        return {k: dec(x) for k, x in v.items()}
    raise TypeError(f"cannot decode {type(v)}")


def readable(v, maxlen=24):
    """Human-readable, strictly JSON-valid rendering of a case for evidence samples."""
    if v is None or isinstance(v, (bool, str, int)):
        return v
    if isinstance(v, float):
        return v if math.isfinite(v) else repr(v)
    if isinstance(v, np.generic):
        return readable(v.item())
    if isinstance(v, np.ndarray):
        flat = v.ravel().tolist()
        out = [readable(x) for x in flat[:maxlen]]
        d = {"dtype": str(v.dtype), "shape": list(v.shape), "values": out}
        if len(flat) > maxlen:
            d["truncated_from"] = len(flat)
        return d
    if isinstance(v, (list, tuple)):
        out = [readable(x, maxlen) for x in list(v)[:maxlen]]
        return out
    if isinstance(v, dict):
        return {str(k): readable(x, maxlen) for k, x in v.items()}
    return repr(v)


def case_hash(case) -> int:
    """Stable 63-bit hash of an (encoded) case, used for distinct counting."""
    blob = json.dumps(case, sort_keys=True, default=str).encode()
    return int.from_bytes(hashlib.blake2b(blob, digest_size=8).digest(), "big") >> 1


def short_hash(obj) -> str:
    blob = json.dumps(obj, sort_keys=True, default=str).encode()
    return hashlib.blake2b(blob, digest_size=8).hexdigest()
