"""
Known findings: /verif/known_findings.json is committed and never written at run time.

An entry with status "known" names a *mechanism* (``key``); ``classify`` decides with a
predicate over the violating case whether a violation is an instance of that mechanism.
Entries with status "fixed" suppress nothing.
"""

from __future__ import annotations

import json
import os

VERIF_ROOT = os.path.dirname(os.path.dirname(os.path.abspath(__file__)))
_PATH = os.path.join(VERIF_ROOT, "known_findings.json")


def load():
    if not os.path.exists(_PATH):
        return []
    with open(_PATH) as f:
        return json.load(f)["findings"]


def known_for(pid):
    return {e["key"]: e for e in load() if e["property"] == pid and e["status"] == "known"}


def classify(pid, violation):
    """Returns the key of the known mechanism this violation is an instance of, or None."""
    fn = _CLASSIFIERS.get(pid)
    if fn is None:
        return None
    try:
        return fn(violation)
    except Exception:
        return None


def _c18(v):
    # The violation detail is written by props/C18.py and states the facet that failed
    # and the facts the predicates need (computed from the failing frame itself).
    d = v.get("detail") or {}
    facet = d.get("facet")
    if (
        facet in ("row_labels", "row_count", "entry", "crash")
        and d.get("nb_group_columns", 1) > 1
        and d.get("some_group_value_contains_underscore")
    ):
        return "multi-column-underscore"
    if facet in ("ci_limits", "ci_order") and d.get("normalize") == "by_min" and d.get("bootstrap"):
        return "by-min-bootstrap-axis"
    return None


def _c16(v):
    d = v.get("detail") or {}
    if (
        v.get("monitor") == "M-band"
        and d.get("function") == "fixed_width_band_ci"
        and "Could not initialise search for displacement" in str(d.get("exc", ""))
        and d.get("nb_hard_pos", 0) > 16 * d.get("nb_hard_neg", 0) > 0  # slope k = sqrt(n_neg/n_pos) < 1/4
    ):
        return "fwb-bracket-imbalanced"
    return None


_CLASSIFIERS = {"C18": _c18, "C16": _c16}
